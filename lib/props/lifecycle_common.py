"""Shared machinery of C04 and C06 (spec/Lifecycle.tla, LifecycleGen.tla, LifecycleTrace.tla).

Model: spec/Lifecycle.tla checked exhaustively by TLC on small constants.  Scenarios: TLC walks
spec/LifecycleGen.tla (simulation, and exhaustive search for the counterexamples of the deviations that
are open findings); `hist` of a behaviour is the scenario.  Each scenario is run on the real core through
the whole-core simulation (harness/cmd/coresim) and the recorded runs are validated by TLC against
spec/LifecycleTrace.tla (strict conformance + monitor).
"""
import json
import os
import re
import subprocess

import coresim as cs
import vlib

# deviation constant -> (property that owns the finding, key in known_findings.json)
DEVS = {
    "Code_DetectorCheckNotAtomic": ("C04", "detector-check-not-atomic"),
    "Code_ClaimNotAtomic": ("C04", "reuse-claim-not-atomic"),
    "Code_AllClaimedCrashes": ("C04", "reuse-all-claimed-core-crash"),
    "Code_FirstMessageResent": ("C06", "first-release-message-sent-twice"),
    "Code_OnlyLastWeightHooksReleased": ("C06", "destroy-hooks-only-last-weight-released"),
    "Code_InactiveHookNotReleased": ("C06", "inactive-destroy-hook-never-released"),
    "Code_RetryForgetsLaunched": ("C06", "deploy-retry-forgets-launched-tasks"),
    "Code_InactiveDroppedUnkilled": ("C06", "inactive-task-dropped-without-kill"),
}
# how TeardownEnvironment merges the DESTROY and after_DESTROY hook maps (equal weights: the latter replaces
# the former).  Not a C04/C06 matter: the model follows the code, the check reports it as an observation.
ALWAYS = {"Code_AfterDestroyOverwrites": True}
# classes of change the model decides; not in the tree (TLC finds PostOnReturn resp. ForeignUntouched violated when TRUE)
CLASSES = {"Code_ReleaseSkipsBlanked": False, "Code_MasterUpdateBlanksIds": False, "Code_FailedClaimerUnlocks": False,
           "Code_KillPrunesInactive": False, "Code_RosterSwapLosesAppend": False, "Code_KillErrorForgotten": False,
           "Code_FailedHookForgetsPending": False}
MASTER_KINDS = {"MASTER_NOEXEC": "noexec", "MASTER_NOIDS": "noids"}

HOOKDEF = {"h1": ("task", "DESTROY", 0), "h2": ("task", "DESTROY", 1), "h3": ("task", "after_DESTROY", 0),
           "d1": ("call", "DESTROY", 0), "d2": ("call", "DESTROY", 1), "d3": ("call", "after_DESTROY", 0)}
ALLGATES = ["envman.create.snapshot", "envman.create.registered", "task.lock", "td.left", "td.released1", "td.destroyhooks",
            "td.released2", "td.done", "task.kill.send", "env.lock.acquired"]
C04_INVS = {"OneOwner", "OwnerMatchesListing", "OwnerAgrees", "DetExclusive", "KillUnowned", "SelectUnowned", "OwnedInRoster",
            "LockUnowned",
            "ReleaseOwn", "CommandOwn",
            "ConflictFails", "HolderUnchanged", "NoCrash"}
C06_INVS = {"OwnerListed", "PostListed", "PostOwned", "PostOwnedApi", "PostKilled", "PostOrphan", "PostDetectors", "DestroyHooksLast", "Returns",
            "PendingCalls", "CleanupKillsUnowned"}


# ---------------------------------------------------------------------------------------------------
# TLC configuration text
def tla(v):
    """python value -> TLC cfg value (sets of strings, nested sets, booleans, ints)."""
    if isinstance(v, bool):
        return "TRUE" if v else "FALSE"
    if isinstance(v, int):
        return str(v)
    if isinstance(v, str):
        return '"%s"' % v
    if isinstance(v, (set, frozenset, list, tuple)):
        return "{" + ", ".join(sorted(tla(x) for x in v)) + "}"
    raise ValueError(v)


def dev_open(ctx, const):
    prop, key = DEVS[const]
    for f in ctx.findings:
        if f.get("property") == prop and f.get("key") == key:
            return f.get("status") == "open"
    return False


def code_consts(ctx, as_is=True, only=None):
    """Deviation constants: the code as it is (open findings TRUE), the intended design (all FALSE),
    or the design with the single deviation `only`."""
    out = {}
    for c in DEVS:
        out[c] = (dev_open(ctx, c) if as_is else False) or c == only
    for c, v in ALWAYS.items():
        out[c] = v if as_is else False
    out.update(CLASSES)
    return out


BASE = dict(Envs={"e1", "e2"}, TaskIds={"k1", "k2", "k3", "k4"}, Dets={"TPC", "ITS"}, Hosts={"h1", "h2"}, ReuseUnlocked=False,
            BasicChoices=[{"a"}], HookChoices=[set()], PendChoices=[False], DetChoices=[{"TPC"}, {"ITS"}], Scripts={"ok"},
            Ops={"START_ACTIVITY", "STOP_ACTIVITY"}, DestroyFlags=[set(), {"force"}, {"keep"}], KillOutcomes={"ack"},
            FaultRoles=set(), FaultKinds={"TASK_FAILED"}, MaxCalls=4, MaxInFlight=2)


def consts_text(c):
    return "\n".join("  %s = %s" % (k, tla(v)) for k, v in sorted(c.items()))


MODEL_INVS = "TypeOK OneOwner DetExclusive ForeignUntouched OwnedStayInRoster ConflictFailsCleanly NoCrash PostOnReturn DestroyHooksLast"


def cfg_model(ctx, c, code):
    d = dict(BASE)
    d.update(c)
    d.update(code)
    return "SPECIFICATION Spec\nCONSTANTS\n%s\nINVARIANTS %s\nCHECK_DEADLOCK FALSE\n" % (consts_text(d), MODEL_INVS)


def cfg_gen(ctx, c, code, pairs, gates=None, invs=None, max_pairs=1):
    d = dict(BASE)
    d["MaxFaults"] = 2
    d.update(c)
    d.update(code)
    d["Pairs"] = pairs
    d["MaxPairs"] = max_pairs
    d["AllowCrash"] = bool(invs and "NoCrash" in invs)
    d["GateChoices"] = set(gates if gates is not None else ALLGATES)
    if invs:
        return "SPECIFICATION GenSpec\nCONSTANTS\n%s\nINVARIANTS %s\nVIEW GenView\nCHECK_DEADLOCK FALSE\n" % (consts_text(d), invs)
    return "SPECIFICATION GenSpec\nCONSTANTS\n%s\nINVARIANT PrintScn\nCHECK_DEADLOCK FALSE\n" % consts_text(d)


def cfg_trace(ctx, reuse):
    d = dict(BASE)
    d.update(Envs={"e1", "e2", "e3"}, TaskIds={"k%d" % i for i in range(1, 61)}, ReuseUnlocked=reuse, Scripts={"ok"},
             KillOutcomes={"ack", "silent"}, FaultRoles={"a", "b", "h1", "h2", "h3"},
             FaultKinds={"TASK_FAILED", "EXECUTOR_LOST", "AGENT_LOST", "MASTER_NOEXEC", "MASTER_NOIDS"}, MaxCalls=1000, MaxInFlight=1000)
    d.update(code_consts(ctx, as_is=True))
    return "SPECIFICATION TraceSpec\nCONSTANTS\n%s\nINVARIANT PrintEnd\nCHECK_DEADLOCK FALSE\n" % consts_text(d)


# ---------------------------------------------------------------------------------------------------
# scenarios from TLC
def setof(v):
    if isinstance(v, dict) and "$set" in v:
        return sorted(setof(x) if isinstance(x, dict) else x for x in v["$set"])
    if isinstance(v, (list, tuple, set)):
        return sorted(v)
    return v


def norm_call(rec):
    r = {"do": rec["do"]}
    if r["do"] == "none":
        return r
    r["env"] = rec.get("env", "none")
    if r["do"] == "create":
        r.update(basic=setof(rec["basic"]), hooks=setof(rec["hooks"]), pend=bool(rec["pend"]), dets=setof(rec["dets"]),
                 script=rec["script"])
    elif r["do"] == "destroy":
        r["flags"] = setof(rec["flags"])
    elif r["do"] == "control":
        r["op"] = rec["op"]
    elif r["do"] == "fault":
        r["role"] = rec["role"]
        r["kind"] = rec.get("kind", "TASK_FAILED")
        r["errs"] = setof(rec.get("errs", []))
    return r


def norm_hist(h):
    """hist value printed by TLC (parsed by tlaval) -> list of plain dicts."""
    out = []
    for it in h:
        if it["do"] == "par":
            out.append({"do": "par", "a": norm_call(it["a"]), "gate": it["gate"], "b": norm_call(it["b"])})
        else:
            out.append(norm_call(it))
    return out


def generate(ctx, c, n, depth=400, pairs=False, gates=None, seed=None, max_pairs=1):
    """n behaviours of LifecycleGen by TLC simulation -> list of hists (deduplicated, order kept)."""
    code = code_consts(ctx, as_is=True)
    r = ctx.tlc("LifecycleGen", None, workers=1, sim="num=%d" % n, cfg_text=cfg_gen(ctx, c, code, pairs, gates, max_pairs=max_pairs),
                extra=["-depth", str(depth), "-seed", str(seed if seed is not None else ctx.seed)], timeout=900)
    recs = r.records("SCN")
    if not recs:
        ctx.save_debug(r, "gen.txt")
        raise vlib.Inconclusive("LifecycleGen produced no scenario: " + vlib.tail(r.out))
    seen, out = set(), []
    for rec in recs:
        h = norm_hist(rec[1])
        # a history without any create has nothing to run on
        if not any(x["do"] == "create" or (x["do"] == "par" and "create" in (x["a"]["do"], x["b"]["do"])) for x in h):
            continue
        key = json.dumps(h, sort_keys=True)
        if key not in seen:
            seen.add(key)
            out.append(h)
    return out


def counterexample(ctx, c, dev, inv, pairs, gates=None, timeout=900):
    """Search LifecycleGen (schedules the harness can impose) exhaustively for a violation of `inv` by the design
    with the single deviation `dev`; returns the hist of the violating state, or None."""
    code = code_consts(ctx, as_is=False, only=dev)
    r = ctx.tlc("LifecycleGen", None, workers=min(8, vlib.NCPU), cfg_text=cfg_gen(ctx, c, code, pairs, gates, invs=inv), timeout=timeout)
    ctx.states += r.distinct
    ctx.transitions += r.generated
    ctx.model_runs.append({"module": "LifecycleGen", "cfg": "%s/%s" % (dev, inv), "distinct": r.distinct, "generated": r.generated,
                           "result": "violated:" + ",".join(r.violated) if r.violated else ("ok" if r.no_error else "?"),
                           "wall_s": round(r.wall, 1)})
    if not r.violated:
        if not r.no_error:
            ctx.save_debug(r, "cex_%s.txt" % dev)
            raise vlib.Inconclusive("LifecycleGen/%s: TLC failed: %s" % (dev, vlib.tail(r.out)))
        return None
    cx = r.counterexample()
    if not cx:
        ctx.save_debug(r, "cex_%s.txt" % dev)
        raise vlib.Inconclusive("cannot parse the counterexample of %s" % dev)
    last = cx[-1][-1]
    return norm_hist(last["hist"])


# ---------------------------------------------------------------------------------------------------
# hist -> scenario for harness/cmd/coresim
def trig(t, w):
    return t if w == 0 else "%s%+d" % (t, w)


def fail_role(basic):
    return "b" if "b" in basic else "a"


GATE_POINT = {"envman.create.snapshot": ("envman.create.snapshot", None), "envman.create.registered": ("envman.create.registered", "env"),
              "task.lock": ("task.lock", "env"), "task.kill.send": ("task.kill.send", None),
              "task.roster.appended": ("task.roster.appended", None),
              "env.lock.acquired": ("env.lock.acquired", "what")}
OPMAP = {"START_ACTIVITY": "START_ACTIVITY", "STOP_ACTIVITY": "STOP_ACTIVITY", "RESET": "RESET", "GO_ERROR": "GO_ERROR",
         "CONFIGURE": "CONFIGURE"}


class Builder:
    def __init__(self, sid, family, hist, reuse=False, kill="ack", prefix="x"):
        self.sid, self.family, self.hist, self.reuse, self.kill = sid, family, hist, reuse, kill
        self.pre = "%s%d" % (prefix, sid)
        self.files, self.scripts, self.steps = {}, [], []
        self.envs = {}       # alias -> create record
        self.classes = {}    # class -> role
        self.probes = {}     # behaviour of verif.Probe('<id>') call hooks
        self.isolated = False

    def cls(self, env, role):
        c = "%s%s" % (self.pre, role) if self.reuse else "%s%s%s" % (self.pre, env, role)
        self.classes[c] = role
        return c

    def add_env(self, rec):
        e = rec["env"]
        self.envs[e] = rec
        fr = fail_role(rec["basic"])
        s = rec["script"]
        # undeployable / partial: the UNDEPLOYABLE notification of the workflow is sent without blocking and can be lost
        # while DeployTransition.do is busy; DEPLOY then fails at deploy_timeout only (90 s by default).  launchfail: the
        # same holds for the ERROR of the role whose task failed to launch (seen on a loaded machine).
        roles, defaults = "", ({"deploy_timeout": "6s"} if s in ("undeployable", "partial", "launchfail") else None)
        for r in rec["basic"]:
            c = self.cls(e, r)
            cpu = 1000 if (s == "partial" and r == fr) else 0.1
            self.files["tasks/%s.yaml" % c] = cs.task_class(c, cpu=cpu)
            host = "h2" if r == "b" else "h1"
            if s == "undeployable" and r == fr:
                host = "h9"
            roles += cs.role_task(r, c, host=host)
            if r == fr:
                if s == "launchfail":
                    self.scripts.append({"class": c, "launch": "failed"})
                elif s == "silentlaunch":
                    self.scripts.append({"class": c, "launch": "silent"})
                    defaults = {"deploy_timeout": "3s"}
                elif s == "configfail":
                    self.scripts.append({"class": c, "event": "CONFIGURE", "outcome": "err_error"})
        for h in rec["hooks"]:
            kind, t, w = HOOKDEF[h]
            if kind == "task":
                c = self.cls(e, h)
                self.files["tasks/%s.yaml" % c] = cs.task_class(c, mode="hook")
                roles += cs.role_task(h, c, host="h2" if h == "h2" else "h1", trigger=trig(t, w), critical=False)
            else:
                roles += cs.role_call(h, h, trig(t, w), critical=False)
        if rec["pend"]:
            roles += cs.role_call("p1", "p1", "before_START_ACTIVITY", await_="after_STOP_ACTIVITY", critical=False)
        if s == "hookfail":
            # a call started at before_CONFIGURE and awaited at before_CONFIGURE+10; a critical call in between fails
            roles += cs.role_call("late", "late%s" % e, "before_CONFIGURE", await_="before_CONFIGURE+10", critical=False)
            roles += cs.role_call("crit", "crit%s" % e, "before_CONFIGURE+5", critical=True)
            self.probes["crit%s" % e] = {"outcome": "fail"}
        if s == "load":
            roles += cs.role_task("zz", "%smissing" % self.pre, host="h1")
        if not roles:
            roles = cs.role_call("idle", "idle", "enter_ERROR", critical=False)
        wf = "%sw%s" % (self.pre, e)
        self.files["workflows/%s.yaml" % wf] = cs.workflow(wf, roles, defaults=defaults)
        return wf

    def call_step(self, rec, caller=None):
        d = rec["do"]
        slow = self.kill == "silent"
        if d == "create":
            wf = self.add_env(rec)
            st = {"do": "create", "env": rec["env"], "wf": wf, "vars": {"detectors": json.dumps(rec["dets"])}}
        elif d == "destroy":
            fl = rec["flags"]
            st = {"do": "destroy", "env": rec["env"], "force": "force" in fl, "allow_in_running": "allow" in fl, "keep_tasks": "keep" in fl}
        elif d == "control":
            st = {"do": "control", "env": rec["env"], "op": OPMAP[rec["op"]]}
        elif d == "cleanup":
            st = {"do": "cleanup"}
        else:
            raise ValueError(d)
        # no call of these scenarios takes longer than a few seconds (3 deployment attempts, deploy_timeout 3s)
        st["timeout_ms"] = 5000 if slow else 30000
        if caller:
            st["caller"] = caller
        return st

    def gate_steps(self, a, g):
        if g.startswith("td."):
            return "env.teardown.phase", {"env": a["env"], "phase": g[3:]}
        point, key = GATE_POINT[g]
        if key == "env":
            return point, {"env": a["env"]}
        if key == "what":
            return point, {"env": a["env"], "what": OPMAP[a["op"]]}
        return point, None

    def build(self):
        self.steps.append({"do": "mutepoint", "point": "envman.released.delivered"})
        for it in self.hist:
            if it["do"] == "par":
                a, b, g = it["a"], it["b"], it["gate"]
                if g == "missed" or b["do"] == "none":
                    self.steps += [self.call_step(a), {"do": "settle", "ms": 40}, {"do": "snapshot"}]
                    continue
                point, match = self.gate_steps(a, g)
                gs = {"do": "gate", "point": point}
                if match:
                    gs["match"] = match
                self.steps += [gs, self.call_step(a, "A"), {"do": "waitgate", "point": point, "timeout_ms": 4000},
                               {"do": "disarm", "point": point}, self.call_step(b, "B"), {"do": "settle", "ms": 150},
                               {"do": "snapshot"}, {"do": "release", "point": point}, {"do": "await", "caller": "A"}, {"do": "await", "caller": "B"},
                               {"do": "settle", "ms": 40}, {"do": "snapshot"}]
            elif it["do"] == "fault":
                e, kind = it["env"], it.get("kind", "TASK_FAILED")
                if kind in MASTER_KINDS:
                    # a status update generated by the master, without executor id (step of harness/coresim/ext_c03.go)
                    self.steps.append({"do": "masterupdate", "class": self.cls(e, it["role"]), "kind": MASTER_KINDS[kind]})
                else:
                    self.steps.append({"do": "fault", "kind": kind, "class": self.cls(e, it["role"])})
                # the workflow-state watcher moves an environment to ERROR 500 ms after a critical task of it was lost
                for x in it.get("errs", []):
                    self.steps.append({"do": "poll", "env": x, "until": ["ERROR"], "timeout_ms": 4000})
                self.steps += [{"do": "settle", "ms": 60}, {"do": "snapshot"}]
            else:
                self.steps += [self.call_step(it), {"do": "settle", "ms": 40}, {"do": "snapshot"}]
        self.steps += [{"do": "pendingcalls"}, {"do": "cleanup"}, {"do": "settle", "ms": 60}, {"do": "snapshot"}]
        if self.kill == "silent":
            self.scripts.append({"class": self.pre, "kill": "silent"})
            self.isolated = True
        model = {"reuse": self.reuse, "family": self.family, "kill": self.kill,
                 "envs": {e: {"basic": r["basic"], "hooks": r["hooks"], "pend": r["pend"], "dets": r["dets"], "script": r["script"]}
                          for e, r in self.envs.items()}}
        s = {"id": self.sid, "family": self.family, "agents": cs.DEFAULT_AGENTS, "files": self.files,
             "core": {"flags": ["--reuseUnlockedTasks=true"]} if self.reuse else {}, "scripts": self.scripts, "hooks": self.probes,
             "steps": self.steps, "model": model, "classes": self.classes, "hist": self.hist}
        if self.isolated:
            s["isolated"] = True
        return s


def recipe_double_claim(sid, prefix="c", then_destroy=False):
    """Schedule of TLC's counterexample for Code_ClaimNotAtomic (three calls in flight, which LifecycleGen does not
    produce): e2 and e3 are parked after their own Cleanup, e1 is destroyed with keep_tasks, e2 claims e1's task and
    is parked before it locks it, e3 claims it too; both lock it."""
    pre = "%s%d" % (prefix, sid)
    files, classes = {}, {}
    for r in ("a", "b"):
        c = "%s%s" % (pre, r)
        classes[c] = r
        files["tasks/%s.yaml" % c] = cs.task_class(c)
    # (a reused task does not report ACTIVE to its new role: both deployments run into their deploy_timeout)
    for wf, roles, dt in (("%sw1" % pre, ["a"], "3s"), ("%sw2" % pre, ["a", "b"], "3s"), ("%sw3" % pre, ["a", "b"], "8s")):
        y = "".join(cs.role_task(r, "%s%s" % (pre, r), host="h2" if r == "b" else "h1") for r in roles)
        files["workflows/%s.yaml" % wf] = cs.workflow(wf, y, defaults={"deploy_timeout": dt})
    nod = {"detectors": "[]"}
    reg, lock = "envman.create.registered", "task.lock"
    steps = [{"do": "mutepoint", "point": "envman.released.delivered"},
             {"do": "create", "env": "e1", "wf": pre + "w1", "vars": nod, "timeout_ms": 12000},
             {"do": "gate", "point": reg},
             {"do": "create", "env": "e2", "wf": pre + "w2", "vars": nod, "caller": "A", "timeout_ms": 20000},
             {"do": "waitgate", "point": reg, "n": 1, "timeout_ms": 8000},
             {"do": "create", "env": "e3", "wf": pre + ("w3" if then_destroy else "w2"), "vars": nod, "caller": "B", "timeout_ms": 20000},
             {"do": "waitgate", "point": reg, "n": 2, "timeout_ms": 8000}, {"do": "disarm", "point": reg},
             {"do": "destroy", "env": "e1", "keep_tasks": True, "timeout_ms": 12000},
             {"do": "gate", "point": lock, "match": {"env": "e2"}}, {"do": "release", "point": reg},
             {"do": "waitgate", "point": lock, "timeout_ms": 8000}, {"do": "disarm", "point": lock},
             # e3 claims the task too and waits for the deployment mutex e2 holds; it is parked in turn before its first lock, so
             # that e2 locks the reused task first and e3 last, whatever the load of the machine
             {"do": "gate", "point": lock, "match": {"env": "e3"}}, {"do": "release", "point": reg}, {"do": "settle", "ms": 150},
             {"do": "release", "point": lock}, {"do": "waitgate", "point": lock, "timeout_ms": 8000}, {"do": "settle", "ms": 150},
             {"do": "disarm", "point": lock}, {"do": "release", "point": lock},
             {"do": "await", "caller": "A", "timeout_ms": 20000}]
    if then_destroy:
        # e2's failure tail could not release the task e3 took over: e2 is still listed, and as long as e3 holds the task
        # a destroy of e2 cannot be honoured: it must return an error
        steps += [{"do": "destroy", "env": "e2", "force": True, "timeout_ms": 12000}, {"do": "snapshot"}]
    steps += [{"do": "await", "caller": "B", "timeout_ms": 20000}, {"do": "settle", "ms": 60}, {"do": "snapshot"}]
    mk = lambda b: {"basic": b, "hooks": [], "pend": False, "dets": [], "script": "ok"}
    hist = [{"do": "recipe", "name": "reuse-double-claim"}]
    return {"id": sid, "family": "recipe:Code_ClaimNotAtomic", "agents": cs.DEFAULT_AGENTS, "files": files,
            "core": {"flags": ["--reuseUnlockedTasks=true"]}, "scripts": [], "hooks": {}, "steps": steps, "isolated": True,
            "model": {"reuse": True, "strict": False, "family": "recipe", "kill": "ack",
                      "envs": {"e1": mk(["a"]), "e2": mk(["a", "b"]), "e3": mk(["a", "b"])}},
            "classes": classes, "hist": hist}


def recipe_failed_claimer(sid, prefix="c"):
    """Reuse with a FAILING claimer (three calls in flight): e1's task T is kept unlocked; e2 picks T for reuse and is held in
    its deployment retry loop (its other descriptor cannot be placed); e3, which needs nothing new, picks T as well and
    locks it; then e2's deployment fails.  T must stay e3's: untouched by e2's failure path and by the next cleanup."""
    pre = "%s%d" % (prefix, sid)
    files, classes = {}, {}
    for r in ("a", "b"):
        c = "%s%s" % (pre, r)
        classes[c] = r
        files["tasks/%s.yaml" % c] = cs.task_class(c)
    # e2: role b bound to a host that does not exist; e3: a reused task does not report ACTIVE to its new role, its DEPLOY
    # lasts until deploy_timeout
    for wf, roles, dt in (("%sw1" % pre, [("a", "h1")], "6s"), ("%sw2" % pre, [("a", "h1"), ("b", "h9")], "6s"),
                          ("%sw3" % pre, [("a", "h1")], "10s")):
        y = "".join(cs.role_task(r, "%s%s" % (pre, r), host=h) for r, h in roles)
        files["workflows/%s.yaml" % wf] = cs.workflow(wf, y, defaults={"deploy_timeout": dt})
    nod = {"detectors": "[]"}
    reg, retry = "envman.create.registered", "task.acquire.retry"
    steps = [{"do": "mutepoint", "point": "envman.released.delivered"},
             {"do": "create", "env": "e1", "wf": pre + "w1", "vars": nod, "timeout_ms": 30000},
             {"do": "gate", "point": reg},
             {"do": "create", "env": "e2", "wf": pre + "w2", "vars": nod, "caller": "A", "timeout_ms": 40000},
             {"do": "waitgate", "point": reg, "n": 1, "timeout_ms": 8000},
             {"do": "create", "env": "e3", "wf": pre + "w3", "vars": nod, "caller": "B", "timeout_ms": 40000},
             {"do": "waitgate", "point": reg, "n": 2, "timeout_ms": 8000}, {"do": "disarm", "point": reg},
             {"do": "destroy", "env": "e1", "keep_tasks": True, "timeout_ms": 30000},
             {"do": "gate", "point": retry, "match": {"env": "e2"}}, {"do": "release", "point": reg},
             {"do": "waitgate", "point": retry, "timeout_ms": 8000}, {"do": "disarm", "point": retry},
             {"do": "release", "point": reg}, {"do": "settle", "ms": 300}, {"do": "snapshot"},
             {"do": "release", "point": retry}, {"do": "await", "caller": "A", "timeout_ms": 40000}, {"do": "settle", "ms": 60},
             {"do": "snapshot"}, {"do": "cleanup", "timeout_ms": 30000}, {"do": "settle", "ms": 100}, {"do": "snapshot"},
             {"do": "await", "caller": "B", "timeout_ms": 40000}, {"do": "settle", "ms": 60}, {"do": "snapshot"}]
    mk = lambda b, sc="ok": {"basic": b, "hooks": [], "pend": False, "dets": [], "script": sc}
    return {"id": sid, "family": "recipe:failed-claimer", "agents": cs.DEFAULT_AGENTS, "files": files,
            "core": {"flags": ["--reuseUnlockedTasks=true"]}, "scripts": [], "hooks": {}, "steps": steps, "isolated": True,
            "model": {"reuse": True, "strict": False, "family": "recipe", "kill": "ack",
                      "envs": {"e1": mk(["a"]), "e2": mk(["a", "b"], "undeployable"), "e3": mk(["a"])}},
            "classes": classes, "hist": [{"do": "recipe", "name": "reuse-failed-claimer"}]}


def recipe_kill_refused(sid, prefix="d"):
    """The KILL call of the first task of a destroy's batch is rejected by the master; the killer is held before its second
    KILL until the scheduler has subscribed again (a failed call costs it its connection), so that the later KILLs succeed.
    The destroy cannot be honoured: it must return an error."""
    pre = "%s%d" % (prefix, sid)
    b = Builder(sid, "recipe:kill-refused", [{"do": "create", "env": "e1", "basic": ["a", "b"], "hooks": [], "pend": False,
                                              "dets": ["TPC"], "script": "ok"}], prefix=prefix)   # (no hook task: those exit on their own)
    s = b.build()
    p = "task.kill.send"
    cut = [i for i, x in enumerate(s["steps"]) if x.get("do") == "pendingcalls"][0]
    s["steps"][cut:cut] = [
        {"do": "refusekills", "n": 1}, {"do": "gate", "point": p},
        {"do": "destroy", "env": "e1", "caller": "A", "timeout_ms": 40000},
        {"do": "waitgate", "point": p, "timeout_ms": 8000}, {"do": "release", "point": p},
        {"do": "waitgate", "point": p, "timeout_ms": 8000}, {"do": "disarm", "point": p},
        {"do": "waitsubscribe", "n": 2, "timeout_ms": 30000}, {"do": "release", "point": p},
        {"do": "await", "caller": "A", "timeout_ms": 40000}, {"do": "refusekills", "n": 0}, {"do": "settle", "ms": 60}, {"do": "snapshot"}]
    s["isolated"] = True      # the count of subscriptions is per core process
    s["model"]["strict"] = True
    s["hist"] = [{"do": "recipe", "name": "kill-refused"}]
    return s


def recipe_lost_append(sid, prefix="c"):
    """A cleanup's roster filter against the roster write at the end of a deployment: the cleanup is parked at
    task.roster.filtered (reached whenever a filtered copy of the roster has been taken and the lock is free again: inside
    the removal itself only if the removal is not one critical section), the deployment of e2 - parked just before its
    roster write - appends, then the cleanup goes on.  Without that hook point in the tree the gates simply time out."""
    pre = "%s%d" % (prefix, sid)
    c = pre + "a"
    files = {"tasks/%s.yaml" % c: cs.task_class(c),
             "workflows/%sw.yaml" % pre: cs.workflow(pre + "w", cs.role_task("a", c, host="h1"), defaults={"deploy_timeout": "4s"})}
    nod = {"detectors": "[]"}
    reg, lock, fil, app = "envman.create.registered", "task.lock", "task.roster.filtered", "task.roster.appended"
    steps = [{"do": "mutepoint", "point": "envman.released.delivered"}, {"do": "mutepoint", "point": fil},
             {"do": "create", "env": "e1", "wf": pre + "w", "vars": nod, "timeout_ms": 30000},
             {"do": "gate", "point": reg}, {"do": "create", "env": "e2", "wf": pre + "w", "vars": nod, "caller": "A", "timeout_ms": 40000},
             {"do": "waitgate", "point": reg, "timeout_ms": 8000}, {"do": "disarm", "point": reg},
             {"do": "destroy", "env": "e1", "force": True, "keep_tasks": True, "timeout_ms": 30000},
             {"do": "gate", "point": lock, "match": {"env": "e2"}}, {"do": "release", "point": reg},
             {"do": "waitgate", "point": lock, "timeout_ms": 8000}, {"do": "disarm", "point": lock},
             {"do": "gate", "point": fil}, {"do": "cleanup", "caller": "B", "timeout_ms": 30000},
             {"do": "waitgate", "point": fil, "timeout_ms": 1500}, {"do": "release", "point": fil},
             {"do": "waitgate", "point": fil, "timeout_ms": 1500},
             {"do": "gate", "point": app}, {"do": "release", "point": lock}, {"do": "waitgate", "point": app, "timeout_ms": 8000},
             {"do": "disarm", "point": fil}, {"do": "release", "point": fil},
             {"do": "await", "caller": "B", "timeout_ms": 30000}, {"do": "disarm", "point": app}, {"do": "release", "point": app},
             {"do": "settle", "ms": 60}, {"do": "snapshot"}, {"do": "await", "caller": "A", "timeout_ms": 40000},
             {"do": "settle", "ms": 60}, {"do": "snapshot"}]
    mk = {"basic": ["a"], "hooks": [], "pend": False, "dets": [], "script": "ok"}
    return {"id": sid, "family": "recipe:lost-append", "agents": cs.DEFAULT_AGENTS, "files": files, "core": {}, "scripts": [],
            "hooks": {}, "steps": steps, "isolated": True, "classes": {c: "a"}, "hist": [{"do": "recipe", "name": "lost-append"}],
            "model": {"reuse": False, "strict": False, "family": "recipe", "kill": "ack", "envs": {"e1": mk, "e2": mk}}}


def recipe_recheck(sid, prefix="c"):
    """Two creations that need the same detector, both inside their detector re-check at the same time - if the code lets
    them.  Both have taken their snapshot of the active detectors (parked at envman.create.snapshot); a third environment
    (another detector) is destroyed and parked at env.setstate, where it holds its own data lock; the two creations are let
    go and get stuck reading that environment's detectors inside the re-check (the second one only if the re-check is not
    one critical section with the registration); then the destroy goes on.  No listing is asked for while they are stuck
    (it would wait for the same locks).  Exactly one of the two creations may succeed."""
    pre = "%s%d" % (prefix, sid)
    c = pre + "a"
    files = {"tasks/%s.yaml" % c: cs.task_class(c),
             "workflows/%sw.yaml" % pre: cs.workflow(pre + "w", cs.role_task("a", c, host="h1"))}
    tpc, its = {"detectors": "[\"TPC\"]"}, {"detectors": "[\"ITS\"]"}
    snap, st = "envman.create.snapshot", "env.setstate"
    steps = [{"do": "mutepoint", "point": "envman.released.delivered"},
             {"do": "create", "env": "e3", "wf": pre + "w", "vars": its, "timeout_ms": 30000}, {"do": "settle", "ms": 40}, {"do": "snapshot"},
             {"do": "gate", "point": snap},
             {"do": "create", "env": "e1", "wf": pre + "w", "vars": tpc, "caller": "A", "timeout_ms": 40000},
             {"do": "create", "env": "e2", "wf": pre + "w", "vars": tpc, "caller": "B", "timeout_ms": 40000},
             {"do": "waitgate", "point": snap, "n": 2, "timeout_ms": 8000}, {"do": "disarm", "point": snap},
             {"do": "gate", "point": st, "match": {"env": "e3"}},
             {"do": "destroy", "env": "e3", "force": True, "caller": "C", "timeout_ms": 40000},
             {"do": "waitgate", "point": st, "timeout_ms": 8000}, {"do": "disarm", "point": st},
             {"do": "release", "point": snap}, {"do": "release", "point": snap}, {"do": "settle", "ms": 400},
             {"do": "release", "point": st},
             {"do": "await", "caller": "C", "timeout_ms": 40000}, {"do": "await", "caller": "A", "timeout_ms": 40000},
             {"do": "await", "caller": "B", "timeout_ms": 40000}, {"do": "settle", "ms": 60}, {"do": "snapshot"}]
    mk = lambda d: {"basic": ["a"], "hooks": [], "pend": False, "dets": d, "script": "ok"}
    return {"id": sid, "family": "recipe:recheck", "agents": cs.DEFAULT_AGENTS, "files": files, "core": {}, "scripts": [],
            "hooks": {}, "steps": steps, "isolated": True, "classes": {c: "a"}, "hist": [{"do": "recipe", "name": "recheck"}],
            "model": {"reuse": False, "strict": False, "family": "recipe", "kill": "ack",
                      "envs": {"e1": mk(["TPC"]), "e2": mk(["TPC"]), "e3": mk(["ITS"])}}}


def run_expect_crash(ctx, s):
    """Run one scenario in a process of its own whose core is predicted to die (the harness lives in the same
    process): returns (died, evidence line, recorded lines)."""
    binp = ctx.build("coresim")
    d = os.path.dirname(ctx.path("crash%d" % s["id"], "x"))
    scn, trc = os.path.join(d, "scenarios.ndjson"), os.path.join(d, "trace.ndjson")
    ctx.write_ndjson(scn, [{k: v for k, v in harness_view(s).items() if k != "isolated"}])
    try:
        p = subprocess.run([binp, "-mode", "run", "-work", d, "-scenarios", scn, "-trace", trc], stdout=subprocess.PIPE,
                           stderr=subprocess.STDOUT, text=True, timeout=120)
    except subprocess.TimeoutExpired:
        raise vlib.Inconclusive("crash scenario %d timed out" % s["id"])
    fatal = [ln for ln in p.stdout.splitlines() if ln.startswith("fatal error:") or ln.startswith("panic:")]
    lines = ctx.read_ndjson(trc) if os.path.exists(trc) else []
    return p.returncode != 0 and bool(fatal), (fatal[0] if fatal else ""), lines


def harness_view(s):
    """the part of a scenario the runner reads (its JSON decoder ignores the rest, keep it small anyway)"""
    return {k: v for k, v in s.items() if k not in ("classes", "hist")}


# ---------------------------------------------------------------------------------------------------
# projection of the recorded lines for LifecycleTrace
TERMINAL = {"TASK_FINISHED", "TASK_FAILED", "TASK_KILLED", "TASK_LOST", "TASK_ERROR", "TASK_DROPPED", "TASK_GONE"}
HOOK_KEEP = {"envman.create.snapshot", "envman.create.registered", "env.lock.acquired", "env.lock.release", "env.teardown.phase",
             "task.acquire.claim", "task.acquire.retry", "task.lock", "task.unlock", "task.roster.appended", "task.kill.select",
             "task.kill.send", "api.force.error"}
HOOK_DROP = {"env.watch.recv", "env.watch.fire", "env.setstate", "task.reconcile.kill", "envman.released.delivered"}


class Projector:
    def __init__(self, by_id):
        self.by_id = by_id
        self.cur = None
        self.ended = True
        self.launched = set()
        self.alias = {}
        self.keepflag = {}
        self.facts = {}      # scn -> {"tasks": {k: {...}}, "phase": {env: last teardown phase}}
        self.where = {}      # compact task name -> (agent, executor)

    def fact(self, t):
        return self.facts[self.cur]["tasks"].setdefault(t, {"role": "?", "env": "", "rostered": False, "inactive": False,
                                                            "triggered": False, "claims": 0, "claimers": [], "lockers": []})

    def tk(self, t):
        """compact task names: k1, k2, ... in launch order of this scenario (the runner numbers every task it
        ever met in this core process, including what earlier scenarios left behind)"""
        return self.alias.get(t, "")

    def role(self, cls):
        cls = cls.split("/")[-1].rstrip("@")
        return self.by_id[self.cur]["classes"].get(cls, "?")

    def __call__(self, ln):
        ev, scn = ln["ev"], ln.get("scn", -1)
        if ev == "Reset":
            self.cur, self.ended, self.launched, self.keepflag, self.alias, self.where = scn, False, set(), {}, {}, {}
            m = self.by_id[scn]["model"]
            self.facts[scn] = {"tasks": {}, "phase": {}, "lost": set(), "failed": set()}
            return {"ev": "Reset", "scn": scn, "model": {"reuse": m["reuse"], "strict": bool(m.get("strict", True)), "envs": m["envs"]}}
        if self.ended or scn != self.cur:
            return None
        if ev == "End":
            self.ended = True
            return {"ev": "End", "scn": scn}
        if ev == "Api":
            if ln["call"] == "destroy":
                self.keepflag[ln.get("env", "")] = bool(ln.get("keep_tasks"))
            fl = [f for f, k in (("force", "force"), ("allow", "allow_in_running"), ("keep", "keep_tasks")) if ln.get(k)]
            return {"ev": "Api", "scn": scn, "call": ln["call"], "env": ln.get("env", ""), "op": ln.get("op", ""), "flags": fl}
        if ev == "ApiReply":
            if ln["call"] == "create" and ln.get("code") != "OK":
                self.facts[scn]["failed"].add(ln.get("env", ""))
            return {"ev": "ApiReply", "scn": scn, "call": ln["call"], "env": ln.get("env", ""), "op": ln.get("op", ""),
                    "code": ln.get("code", ""), "st": ln.get("st", ""), "timeout": bool(ln.get("timeout")),
                    "inuse": "already in use" in ln.get("errtext", ""), "keep": self.keepflag.get(ln.get("env", ""), False)}
        if ev == "Hook":
            p = ln["point"]
            if p in HOOK_DROP or p not in HOOK_KEEP:
                return None     # points of other checks
            if p == "env.lock.acquired" and ln.get("what") not in ("DEPLOY", "DESTROY"):
                return None
            if ln.get("task") and ln["task"] not in self.alias:
                return None     # a task of an earlier scenario of this core process
            if ln.get("env") and ln["env"] not in self.by_id[scn]["model"]["envs"]:
                return None     # an environment of an earlier scenario (its watcher fires late)
            if p == "task.roster.appended":
                self.fact(self.tk(ln["task"]))["rostered"] = True
            elif p == "task.acquire.claim":
                self.fact(self.tk(ln["task"]))["claims"] += 1
                self.fact(self.tk(ln["task"]))["claimers"].append(ln.get("env", ""))
            elif p == "task.lock":
                self.fact(self.tk(ln["task"]))["lockers"].append(ln.get("env", ""))
            elif p == "task.kill.select" and not ln.get("active"):
                self.fact(self.tk(ln["task"]))["inactive"] = True
            elif p == "env.teardown.phase":
                self.facts[scn]["phase"][ln.get("env", "")] = ln.get("phase", "")
            return {"ev": "Hook", "scn": scn, "point": p, "env": ln.get("env", ""), "task": self.tk(ln.get("task", "")),
                    "phase": ln.get("phase", ""), "what": ln.get("what", ""), "st": ln.get("st", ""), "who": ln.get("who", ""),
                    "active": bool(ln.get("active")), "why": "release" if ln.get("why") == "release" else ln.get("why", ""),
                    "reused": bool(ln.get("reused")), "locked": bool(ln.get("locked")),
                    "dets": sorted(ln.get("active", [])) if p == "envman.create.snapshot" else []}
        if ev == "MAccept":
            if not ln["tasks"]:
                return None
            for t in ln["tasks"]:
                self.alias[t["task"]] = "k%d" % (len(self.alias) + 1)
                self.where[self.alias[t["task"]]] = (t.get("agent", ""), t.get("executor", ""))
            ts = [{"task": self.tk(t["task"]), "role": self.role(t["class"]), "env": t["env"]} for t in ln["tasks"]]
            self.launched |= {t["task"] for t in ln["tasks"]}
            for t in ts:
                self.fact(t["task"]).update(role=t["role"], env=t["env"])
            return {"ev": "MAccept", "scn": scn, "tasks": ts}
        if ev == "MUpdate":
            if ln["task"] not in self.launched or ln.get("reason"):
                return None
            st = ln["state"]
            if st != "TASK_RUNNING" and st not in TERMINAL:
                return None
            return {"ev": "MUpdate", "scn": scn, "task": self.tk(ln["task"]), "state": st}
        if ev == "MKill":
            return {"ev": "MKill", "scn": scn, "task": self.tk(ln["task"])} if ln["task"] in self.launched else None
        if ev == "MTriggerHook":
            if ln["task"] in self.alias:
                self.fact(self.tk(ln["task"]))["triggered"] = True
            return {"ev": "MTriggerHook", "scn": scn, "task": self.tk(ln["task"]), "env": ln.get("env", "")}
        if ev == "HookStart":
            return {"ev": "HookStart", "scn": scn, "hook": ln["hook"], "env": ln.get("env", ""), "trig": ln.get("trig", "")}
        if ev == "MMessage":
            if ln["task"] not in self.launched:
                return None
            return {"ev": "MMessage", "scn": scn, "event": ln["event"], "task": self.tk(ln["task"]), "env": ln.get("env", "")}
        if ev == "Snapshot":
            keep = self.launched
            envs = [{"env": e["env"], "st": e["st"], "dets": sorted(e["dets"]),
                     "tasks": sorted(self.tk(t["task"]) or t["task"] for t in e["tasks"])} for e in ln["envs"]]
            tasks = [{"task": self.tk(t["task"]), "owner": t["owner"], "locked": t["locked"], "status": t["status"]} for t in ln["tasks"]
                     if t["task"] in keep]
            master = [{"task": self.tk(m["task"]), "terminal": m["terminal"], "kills": m["kills"]} for m in ln["master"]
                      if m["task"] in keep]
            return {"ev": "Snapshot", "scn": scn, "envs": envs, "tasks": tasks, "active_dets": sorted(ln["active_dets"]),
                    "master": master}
        if ev == "Fault":
            # executor / agent reported lost: the tasks (of this scenario) that lived there
            if not ln.get("ok") or ln.get("kind") not in ("EXECUTOR_LOST", "AGENT_LOST") or ln.get("task") not in self.alias:
                return None
            ag, ex = self.where[self.tk(ln["task"])]
            grp = sorted(k for k, (a, x) in self.where.items() if a == ag and (ln["kind"] == "AGENT_LOST" or x == ex))
            self.facts[scn]["lost"] |= set(grp)
            return {"ev": "Fault", "scn": scn, "kind": ln["kind"], "task": self.tk(ln["task"]), "tasks": grp}
        if ev == "MKillRefused":
            if ln.get("task") not in self.alias:
                return None
            self.facts[scn].setdefault("refused", set()).add(self.tk(ln["task"]))
            return {"ev": "MKillRefused", "scn": scn, "task": self.tk(ln["task"])}
        if ev == "MasterUpdate":
            if not ln.get("ok") or ln.get("task") not in self.alias:
                return None
            return {"ev": "MasterUpdate", "scn": scn, "task": self.tk(ln["task"]), "kind": ln.get("kind", "")}
        if ev == "Pending":
            return {"ev": "Pending", "scn": scn, "n": ln["n"]}
        return None


# ---------------------------------------------------------------------------------------------------
def run_and_validate(ctx, scenarios, own_invs, label):
    """Run scenarios on the real core, validate with LifecycleTrace (one TLC run per value of reuseUnlockedTasks),
    classify.  Returns the recorded lines."""
    by_id = {s["id"]: s for s in scenarios}
    lines = cs.run_scenarios(ctx, [harness_view(s) for s in scenarios], procs=max(2, min(10, vlib.NCPU - 4)))
    per_scn = {}
    for ln in lines:
        per_scn.setdefault(ln.get("scn", -1), []).append(ln)
    ctx.extra["trace_lines"] = ctx.extra.get("trace_lines", 0) + len(lines)
    for reuse in (False, True):
        ids = [s["id"] for s in scenarios if bool(s["model"]["reuse"]) == reuse]
        if not ids:
            continue
        sel = []
        for i in ids:
            sel += per_scn.get(i, [])
        # the harness lets the agent report TASK_RUNNING (rosterSeen) just before it records the roster.appended line
        # itself: when the two lines are adjacent in the wrong order, both were written after the append
        for i in range(len(sel) - 1):
            a, b = sel[i], sel[i + 1]
            if a.get("ev") == "MUpdate" and a.get("state") == "TASK_RUNNING" and b.get("ev") == "Hook" \
                    and b.get("point") == "task.roster.appended" and b.get("task") == a.get("task") and a.get("scn") == b.get("scn"):
                sel[i], sel[i + 1] = b, a
        pj = Projector(by_id)
        tf = cs.write_trace(ctx, sel, name="trace_%s_%s.ndjson" % (label, "reuse" if reuse else "plain"), keep=pj)
        viol, drift, tr = ctx.validate("LifecycleTrace", None, tf, cfg_text=cfg_trace(ctx, reuse), timeout=1500)
        for d in drift:
            ctx.drift.append({"scn": d[1], "line": d[2], "at": d[3], "hist": by_id.get(d[1], {}).get("hist")})
        for a in tr.records("ASSUME"):
            # an assumption about the harness did not hold in this scenario (load): not followed further, monitors only
            ctx.extra["assume_broken"] = ctx.extra.get("assume_broken", 0) + 1
            ctx.observations.append("scenario %s not followed after line %s: %s (harness timing, not the code)" % (a[1], a[2], a[3]))
        seen = set()
        for v in viol:
            inv, scn = v[1], v[2]
            if (inv, scn) in seen:
                continue
            seen.add((inv, scn))
            s = by_id.get(scn, {})
            sig = signature(inv, s, v[4] if len(v) > 4 else None, pj.facts.get(scn, {"tasks": {}, "phase": {}, "lost": set()}))
            if inv not in own_invs:
                ctx.observations.append("invariant %s of the sibling property flagged scenario %d (%s)" % (inv, scn, json.dumps(sig)[:160]))
                continue
            res = ctx.add_violation(sig, replay_obj={"scenario": harness_view(s), "hist": s.get("hist"),
                                                     "detail": v[4] if len(v) > 4 else None, "trace": per_scn.get(scn, [])[:400]})
            if res == "known":
                ctx.extra.setdefault("known_scn", []).append(scn)
    ctx.traces += len(scenarios)
    return lines


def detail_tasks(detail):
    """task names in the detail <<e, {tasks}>> of a Post* record"""
    if isinstance(detail, (list, tuple)) and len(detail) == 2:
        return detail[0], [t for t in setof(detail[1]) if isinstance(t, str)]
    return None, []


def cause_of(inv, s, detail, facts):
    """What made this violation possible, from the recorded facts: the known findings match on it, so that another
    way of breaking the same invariant still fails the check."""
    m = s.get("model", {})
    envs = m.get("envs", {})
    hist = s.get("hist", [])
    tf = facts.get("tasks", {})
    if inv in ("PostOwned", "PostOwnedApi", "PostKilled", "PostOrphan", "OwnerListed"):
        e, ts = detail_tasks(detail)
        hooks = envs.get(e, {}).get("hooks", [])
        maxw = max([HOOKDEF[h][2] for h in hooks], default=0)
        causes = set()
        for t in ts:
            f = tf.get(t, {})
            r = f.get("role", "?")
            if inv in ("PostOwned", "PostOwnedApi", "OwnerListed"):
                if t in facts.get("lost", ()):
                    causes.add("executor-or-agent-lost")
                elif r in HOOKDEF and HOOKDEF[r][0] == "task" and not f.get("triggered"):
                    causes.add("hook-inactive")
                elif r in HOOKDEF and HOOKDEF[r][0] == "task" and HOOKDEF[r][2] < maxw:
                    causes.add("hook-not-last-weight")
                else:
                    causes.add("other")
            elif inv == "PostKilled":
                causes.add("kill-refused" if t in facts.get("refused", ()) else ("selected-inactive" if f.get("inactive") else "other"))
            else:
                causes.add("never-in-roster" if not f.get("rostered") else ("selected-inactive" if f.get("inactive") else "other"))
        return "+".join(sorted(causes)) or "other"
    if inv == "PostListed":
        # the failure tail of create ignores the error of its forced teardown: the environment stays listed when a release
        # was refused, which takes a task that another environment took over (double claim under task reuse)
        how = detail[1] if isinstance(detail, (list, tuple)) and len(detail) == 2 else "?"
        return ("double-claim/%s" % how) if any(f.get("claims", 0) >= 2 for f in tf.values()) else "other"
    if inv == "Returns":
        call, e = (list(detail) + ["", ""])[:2] if isinstance(detail, (list, tuple)) else ("", "")
        if m.get("kill") == "silent":
            return "kill-unacknowledged"
        if facts.get("phase", {}).get(e) in ("left", "cancelled"):
            return "release-rendezvous-lost"
        return "other"
    if inv in ("LockUnowned", "OneOwner", "OwnerMatchesListing", "OwnerAgrees", "CommandOwn", "ReleaseOwn", "KillUnowned",
               "SelectUnowned", "OwnedInRoster"):
        names = set(re.findall(r'"(k[0-9]+)"', json.dumps(detail, default=str)))
        # picked for reuse by a deployment that failed without ever locking it, while another environment owns it: whatever
        # happens to the task then is the doing of the failed create, not of the (known) double claim
        for t in names:
            f = tf.get(t, {})
            if any(e in facts.get("failed", ()) and e not in f.get("lockers", []) for e in f.get("claimers", [])) \
                    and any(e not in facts.get("failed", ()) or e in f.get("lockers", []) for e in f.get("lockers", [])):
                return "failed-claimer-unlocks"
        if any(tf.get(t, {}).get("claims", 0) >= 2 for t in names):
            return "double-claim"
        return "other"
    if inv in ("DetExclusive", "ConflictFails"):
        for it in hist:
            if it["do"] == "par" and it["a"]["do"] == "create" and it["b"]["do"] == "create" and it["gate"] == "envman.create.snapshot":
                return "create|create@envman.create.snapshot"
        return "other"
    return ""


def signature(inv, s, detail, facts):
    """Signature fields of a violation: what in the scenario is needed for this defect to show."""
    sig = signature0(inv, s, detail)
    sig["cause"] = cause_of(inv, s, detail, facts)
    return sig


def signature0(inv, s, detail):
    """Signature fields of a violation: what in the scenario is needed for this defect to show."""
    m = s.get("model", {})
    envs = m.get("envs", {})
    hist = s.get("hist", [])
    hooks = sorted({h for e in envs.values() for h in e["hooks"]})
    hook_tasks = [h for h in hooks if HOOKDEF[h][0] == "task"]
    weights = sorted({HOOKDEF[h][2] for h in hooks})
    scripts = sorted({e["script"] for e in envs.values()} - {"ok"})
    gates = sorted({it["gate"] for it in hist if it["do"] == "par" and it["b"]["do"] != "none"})
    pairs = sorted({"%s|%s" % (it["a"]["do"], it["b"]["do"]) for it in hist if it["do"] == "par" and it["b"]["do"] != "none"})
    sig = {"inv": inv, "scn": s.get("id"), "family": s.get("family"), "reuse": bool(m.get("reuse")), "kill": m.get("kill", "ack"),
           "scripts": ",".join(scripts), "hook_tasks": len(hook_tasks), "hook_weights": len(weights),
           "fault": any(it["do"] == "fault" for it in hist), "gates": ",".join(gates), "pairs": ",".join(pairs)}
    return sig
