"""C15 - loading a workflow is deterministic and prunes disabled roles.

Model: spec/WorkflowLoad.tla, a FUNCTIONAL specification Load(T, uv, dev) of template processing over
abstract templates (aggregator / task / call / include nodes, iterators with literal / begin..end /
variable ranges, enabled fields that are literals or expressions on variables defined at some level,
names parametrised by iteration variables, one optional poisoned role).  spec/WorkflowLoadGen.tla makes
the template family a state space (one action = append a node): exhaustive TLC enumerates every template
of a slice of the family and checks sanity invariants of Load on each; `-dump` / `-simulate` deliver the
cases.  spec/WorkflowLoadErr.tla models how concurrently processed children hand their errors to the
parent (the schedule-dependent part of "a template error makes the load fail").

Binding: harness/cmd/wfload renders each abstract template to YAML, loads it through the REAL
unmarshalling + ProcessTemplates (core/workflow VerifWLLoad, tag verif) under the 8 switch settings x
>= 3 repetitions (free, seeded yields, and gated schedules derived from the WorkflowLoadErr
counterexample) and records the distinct outcomes; spec/WorkflowLoadTrace.tla (TLC) computes the
expected result with the TLA+ Load and evaluates Determinism / Spec / AllOrNothing on every case.
Thorough tier: the same under `go build -race` on a subset; data-race reports are listed as observations.
"""
import glob
import json
import os
import random
import re
import shutil
import subprocess
import time
from concurrent.futures import ThreadPoolExecutor

import tlaval
import vlib

DEV_ITER = "iterator-enabled-from-template"
DEV_ERR = "iter-shared-err"
DEV_MASK = "enabled-error-masked"

INVS = "Inv_Shape Inv_NoDisabled Inv_NoEmpty Inv_Poison Inv_DevErr Inv_DevSame Inv_MaskOnlyErr Inv_Paths Inv_Order Inv_Bound Inv_Complete Inv_NestedPerOuter Inv_InnermostWins Inv_Channels"


def tset(xs):
    return "{" + ", ".join('"%s"' % x for x in xs) + "}"


def cfg_gen(maxnodes, maxdepth, kinds, fors, ens, vars_, xs, subs, poison, roots, uvs, shadow=("fresh",), spell=("canon",), pu=(), invs=True):
    return """SPECIFICATION GenSpec
CONSTANTS
  MaxNodes = %d
  MaxDepth = %d
  Kinds = %s
  ForKinds = %s
  EnKinds = %s
  VarKinds = %s
  XKinds = %s
  SubChoices = %s
  AllowPoison = %s
  RootKinds = %s
  UvKinds = %s
  ShadowKinds = %s
  SpellKinds = %s
  PuKinds = %s
%s
CHECK_DEADLOCK FALSE
""" % (maxnodes, maxdepth, tset(kinds), tset(fors), tset(ens), tset(vars_), tset(xs), tset(subs),
       "TRUE" if poison else "FALSE", tset(roots), tset(uvs), tset(shadow), tset(spell), tset(pu), ("INVARIANTS " + INVS) if invs else "")


def cfg_err(n, fails, shared):
    return """SPECIFICATION Spec
CONSTANTS
  N = %d
  Fails = {%s}
  SharedErr = %s
INVARIANTS TypeOK ErrorNotLost NoSpuriousError
CHECK_DEADLOCK FALSE
""" % (n, ", ".join(str(x) for x in fails), "TRUE" if shared else "FALSE")


def cfg_trace(dev_iter, dev_mask, dev_shared):
    b = lambda x: "TRUE" if x else "FALSE"
    return """SPECIFICATION TraceSpec
CONSTANTS
  DevIter = %s
  DevEnErr = %s
  DevShared = %s
INVARIANT PrintEnd
CHECK_DEADLOCK FALSE
""" % (b(dev_iter), b(dev_mask), b(dev_shared))


ALLK = ["agg", "task", "call", "inc"]

# Exhaustive slices of the family: (name, maxnodes, maxdepth, kinds, fors, ens, vars, xs, subs, poison, roots, uvs)
SLICES_QUICK = [
    # pruning and iterator expansion, structure only
    ("struct", 3, 2, ["agg", "task"], ["none", "lab", "le"], ["T", "F", "iteq"], ["none"], ["none"], [], False, ["flag"], ["none"]),
    # enabled expressions on variables of several levels, variable ranges, user variables
    ("vars", 3, 2, ["agg", "call"], ["none", "var"], ["T", "flagon"], ["none", "flagit"], ["none"], [], False,
     ["both"], ["flagoff"]),
    # enabled expressions on an undefined variable (template error at stage 0)
    ("enerr", 3, 2, ["agg", "call"], ["none", "lab"], ["T", "flagon"], ["none"], ["none"], [], False, ["lst"], ["none"]),
    # the three kinds of ranges, defined / undefined / overridden / malformed range variable
    ("ranges", 2, 1, ["task"], ["lb", "be12", "be21", "var"], ["T", "itne"], ["none"], ["none"], [], False,
     ["both", "plain"], ["none", "lstb", "lstbad"]),
    # template errors: poisoned role, undefined variables, missing sub-workflow
    ("poison", 3, 2, ["agg", "task", "inc"], ["none", "lab"], ["T", "iteq"], ["none"], ["none"], ["smissing"], True,
     ["flag"], ["none"]),
    # includes, traits, constraints, channels
    ("extras", 3, 2, ["task", "inc"], ["none", "lab"], ["T"], ["none"], ["none", "hook", "cons", "chan"], ["s2", "s4", "s5"], False,
     ["flag"], ["none"]),
    # nested iterators whose inner range (range expression / begin / end) depends on the OUTER iteration variable:
    # per outer element a different inner range, of different lengths, one empty
    ("nested", 3, 2, ["agg", "task"], ["labc", "be02", "dep", "beE", "bBe"], ["T", "iteq"], ["none"], ["none"], [], False,
     ["cards"], ["none"]),
    # shadowing: the iteration variable's NAME is already defined in an enclosing scope - a nested iterator reusing the
    # enclosing iterator's variable name (template roles are aggregators with descendants that reference the variable) ...
    ("shadow", 4, 3, ["agg", "task"], ["none", "lab"], ["T"], ["none"], ["none"], [], False, ["flag"], ["none"], ["same"]),
    # ... or vars / defaults of the root or of a role (the template role itself included) defining that name; names,
    # constraints and nested ranges inside reference the variable
    ("shadowv", 3, 2, ["agg", "task"], ["none", "lab", "dep"], ["T"], ["none", "itx"], ["cons"], [], False,
     ["itdef", "itcards"], ["none"]),
]

SPELLINGS = ["lead", "trail", "both", "block", "upper", "cap", "one", "onesp"]
SLICES_QUICK += [
    # metamorphic: the same templates with `enabled` (literal and expression) / `critical` spelled with surrounding
    # whitespace, as a block scalar (trailing newline), in upper / mixed case, as 1 / 0 - the tree must not depend on it
    ("spell", 3, 2, ["agg", "task"], ["none", "lab"], ["T", "iteq"], ["none"], ["none"], [], False, ["flag"], ["none"],
     ["fresh"], ["trail", "both", "block", "cap", "onesp"]),
    ("spell2", 2, 1, ["task", "call"], ["none", "lab"], ["T", "F", "flagon", "iteq"], ["none"], ["none", "hook"], [], False, ["flag"],
     ["none"], ["fresh"], SPELLINGS),
    # begin..end ranges that are inverted by two and more, have negative bounds, equal bounds; bounds from an outer variable
    ("invr", 3, 2, ["agg", "task"], ["be20", "be3N", "beN1", "beNN", "be11", "b2E", "beE"], ["T"], ["none"], ["none"], [], False,
     ["flag"], ["none"]),
]

INCLROOT = ("inclroot", 3, 2, ["agg", "inc"], ["none", "lab"], ["T"], ["none", "flagoff"], ["none"], ["s6", "s7", "s8"], False, ["flag"], ["none"])
SLICES_QUICK += [
    # includes of sub-workflows whose ROOT role carries `enabled`: literal false, an expression on a variable set by the
    # includer / the root / the user, an expression on the iteration variable of the iterator generating the include
    ("inclroot2", 2, 1, ["inc"], ["none", "lab", "be12"], ["T", "flagon", "iteq"], ["none", "flagoff"], ["none"], ["s1", "s6", "s7", "s8"], False,
     ["flag", "plain"], ["none", "flagoff"]),
]

PUS = ["name", "var", "cons", "bind", "conn", "load"]
SLICES_QUICK += [
    # channels: bind `global` aliases and connect targets that depend on the iteration variable (g-{{ it }},
    # data-{{ Parent().Name }}, peer-{{ it }}:in) in iterator template roles and in roles nested in them
    ("chans", 3, 2, ["agg", "task"], ["none", "lab"], ["T"], ["none"], ["bind", "bindp", "conn"], [], False, ["flag"], ["none"]),
    # the error family: a templated field (name, var, constraint value, bind alias, connect target, task class) with an
    # unterminated "{{" - the load must fail
    ("unterm", 2, 1, ["agg", "task", "call", "inc"], ["none", "lab"], ["T", "F", "iteq"], ["none"], ["none"], ["s1"], False, ["flag"], ["none"],
     ["fresh"], ["canon"], PUS),
    ("unterm3", 3, 2, ["agg", "task"], ["none", "lab"], ["T"], ["none"], ["none"], [], False, ["flag"], ["none"],
     ["fresh"], ["canon"], ["bind", "load"]),
]

SLICES_THOROUGH = [
    SLICES_QUICK[0],
    ("struct4", 4, 3, ["agg", "task"], ["none", "lab", "le"], ["T", "iteq"], ["none"], ["none"], [], False, ["flag"], ["none"]),
    ("vars3", 3, 2, ["agg", "call"], ["none", "be12", "var"], ["T", "flagon", "itne"], ["none", "flagit"], ["none"], [], False,
     ["both"], ["none", "lstb"]),
    ("vars3b", 3, 2, ["task"], ["none", "lab", "var"], ["T", "flagoff", "iteq"], ["none", "flagoff"], ["none"], [], False,
     ["both", "plain"], ["none", "lstbad"]),
    ("ranges", 2, 1, ["task", "agg"], ["lab", "lb", "le", "be12", "be21", "var"], ["T", "F", "iteq", "itne"], ["none", "flagit"], ["none"], [],
     False, ["both", "plain", "lst"], ["none", "lstb", "lstbad", "flagoff"]),
    ("poison4", 4, 3, ["agg", "task"], ["none", "lab"], ["T", "iteq"], ["none"], ["none"], [], True, ["flag"], ["none"]),
    ("poison3", 3, 2, ["task", "inc"], ["none", "lab", "var"], ["T"], ["none"], ["none"], ["s3", "s4", "smissing"], True,
     ["lst"], ["none", "lstbad"]),
    ("extras3", 3, 2, ["task", "call", "inc"], ["none", "lab", "be21"], ["T"], ["none"],
     ["none", "hook", "cons", "chan"], ["s2", "s5"], False, ["flag"], ["none"]),
    ("nested3", 3, 2, ["agg", "task"], ["labc", "be03", "dep", "beE", "bBe"], ["T", "iteq", "itne"], ["none"],
     ["none"], [], False, ["cards", "cardsab"], ["none"]),
    ("nested4", 4, 3, ["agg", "task"], ["none", "labc", "be02", "dep", "beE", "bBe"], ["T"], ["none"], ["none"], [], False,
     ["cards"], ["none"]),
    ("shadow4", 4, 3, ["agg", "task"], ["none", "lab", "dep"], ["T"], ["none"], ["cons"], [], False,
     ["cards"], ["none"], ["same", "fresh"]),
    ("shadowv4", 4, 3, ["agg", "task"], ["none", "lab"], ["T"], ["none", "itx"], ["cons"], [], False,
     ["itcards"], ["none"], ["same", "fresh"]),
    ("spell3", 3, 2, ["agg", "task", "call"], ["none", "lab"], ["T", "flagon", "iteq"], ["none"], ["none"], [], False,
     ["flag"], ["none"], ["fresh"], ["trail", "both", "block", "cap", "onesp"]),
    ("spelli", 2, 1, ["inc", "call", "task"], ["none", "lab"], ["T", "F", "flagon", "iteq", "itne"], ["none"], ["none", "hook"],
     ["s1", "s2", "s3"], False, ["flag", "plain"], ["none"], ["fresh"], ["canon"] + SPELLINGS),
    ("invr3", 3, 2, ["agg", "task"], ["be02", "be20", "be3N", "beN1", "beNN", "be11", "b2E", "beE", "bBe"], ["T", "iteq"], ["none"],
     ["none"], [], False, ["flag"], ["none"]),
    INCLROOT, SLICES_QUICK[-1],
    ("inclroot3", 3, 2, ["agg", "inc", "task"], ["none", "lab"], ["T", "iteq"], ["none", "flagoff"], ["none"], ["s6", "s7", "s8"], False,
     ["flag"], ["none"]),
    SLICES_QUICK[-3], SLICES_QUICK[-2],
    ("chans3", 3, 2, ["agg", "task", "call"], ["none", "lab", "be12"], ["T"], ["none"], ["bind", "bindp", "conn", "chan"], [], False, ["flag"], ["none"],
     ["same", "fresh"]),
    ("unterm3b", 3, 2, ["agg", "task", "inc"], ["none", "lab"], ["T", "iteq"], ["none"], ["none"], ["s1"], False, ["flag"],
     ["none"], ["fresh"], ["canon"], PUS),
    ("incl3", 3, 2, ["agg", "inc"], ["none", "lb"], ["T", "iteq"], ["none", "flagit"], ["none"], ["s1", "s2", "s3", "s5"], False,
     ["flag"], ["none", "flagoff"]),
]

# random larger templates (tlc -simulate): everything allowed
SIM = (7, 3, ALLK, ["none", "lab", "labc", "lb", "le", "be12", "be21", "be02", "var", "dep", "beE", "bBe", "be20", "beN1", "be3N", "b2E", "be11"], ["T", "F", "flagon", "flagoff", "iteq", "itne"],
       ["none", "flagoff", "flagit", "itx"], ["none", "hook", "cons", "chan", "conn", "bind", "bindp"], ["s1", "s2", "s3", "s4", "s5", "s6", "s7", "s8", "smissing"], True,
       ["plain", "flag", "lst", "both", "cards", "cardsab", "itvar", "itdef", "itcards"], ["none", "flagoff", "lstb", "lstbad"], ["fresh", "same"], ["canon"] + SPELLINGS, PUS)


def ptlc(ctx, tag, module, cfg_text, workers=2, extra=None, timeout=1200):
    """Like ctx.tlc, but with a directory of its own (ptlc_<tag>) so that several TLC runs can go on concurrently."""
    d = os.path.join(ctx.work, "ptlc_" + tag)
    os.makedirs(os.path.join(d, "sim"))
    for f in glob.glob(os.path.join(vlib.SPEC, "WorkflowLoad*.tla")):
        shutil.copy(f, d)
    with open(os.path.join(d, "run.cfg"), "w") as fh:
        fh.write(cfg_text)
    cmd = ["timeout", str(timeout), "tlc", "-workers", str(workers), "-metadir", os.path.join(d, "md"), "-config", "run.cfg"]
    cmd += list(extra or []) + [module + ".tla"]
    e = dict(os.environ)
    e["JAVA_TOOL_OPTIONS"] = (e.get("JAVA_TOOL_OPTIONS", "") + " -Xss64m").strip()
    t = time.time()
    p = subprocess.run(cmd, cwd=d, env=e, stdout=subprocess.PIPE, stderr=subprocess.STDOUT, text=True)
    r = vlib.TlcResult(p.stdout, p.returncode, time.time() - t)
    r.dir = d
    r.tag = tag
    with open(os.path.join(d, "out.txt"), "w") as fh:
        fh.write(p.stdout)
    return r


def account(ctx, r, module, what, timeout_ok=False):
    """Main-thread bookkeeping of a ptlc result (what ctx.model_check does)."""
    if r.rc == 124:
        raise vlib.Inconclusive("TLC timeout on %s/%s" % (module, what))
    if "java.lang.OutOfMemoryError" in r.out or "StackOverflowError" in r.out:
        raise vlib.Inconclusive("TLC resource failure on %s/%s" % (module, what))
    if r.crashed or (r.generated == 0 and not r.violated):
        ctx.save_debug(r, "tlc_%s_%s.txt" % (module, what))
        raise vlib.Inconclusive("TLC failed on %s/%s (rc=%d): %s" % (module, what, r.rc, vlib.tail(r.out)))
    ctx.ntlc += 1
    ctx.states += r.distinct
    ctx.transitions += r.generated
    res = "ok" if r.no_error else ("violated:" + ",".join(r.violated) if r.violated else ("deadlock" if r.deadlock else "?"))
    ctx.model_runs.append({"module": module, "cfg": what, "distinct": r.distinct, "generated": r.generated, "result": res,
                           "wall_s": round(r.wall, 1)})
    ctx.log("model %s/%s: %d distinct, %d generated, %s (%.1fs)" % (module, what, r.distinct, r.generated, res, r.wall))
    return r


def states_from_dump(path):
    with open(path) as fh:
        txt = fh.read()
    out = []
    for b in re.split(r"(?m)^State [0-9]+:\s*$", txt):
        b = b.strip()
        if b:
            out.append(tlaval.parse_state(b))
    return out


def has_for(T):
    return any(n["for"] for n in T) or any(n["k"] == "inc" and n["sub"] == "s5" for n in T)


def may_err(T):
    """Templates in which some role instance may fail (poison, include, expressions on variables, ranges from variables):
    the ones for which the gated error hand-over schedules of the iterator children are worth running."""
    return any(n["ps"] or n.get("pu") or n["k"] == "inc" or n["en"][0] in ("eq", "ne") or any(v[1] == "ref" for v in n["vs"]) or
               (n["for"] and (n["for"][0]["t"] in ("var", "dep") or n["for"][0]["bv"] or n["for"][0]["ev"])) for n in T)


def shape_of(T):
    if any(n["for"] and n["en"][0] not in ("T", "F") for n in T):
        return "iterator-with-enabled-expression"
    if any(n["for"] for n in T) or any(n["k"] == "inc" for n in T):
        return "iterator-yielding-nothing"
    return "no-iterator"


def parse_race_logs(paths):
    """Return {(siteA, siteB): count} for the DATA RACE reports in the given log files; a site is the first frame of an
    access stack that lies in the repository (function, file:line)."""
    res = {}
    for p in paths:
        with open(p, errors="replace") as fh:
            txt = fh.read()
        for rep in txt.split("WARNING: DATA RACE")[1:]:
            sites = []
            for blk in re.finditer(r"(?m)^(?:Read|Write|Previous read|Previous write) at [^\n]*\n((?:  [^\n]*\n)+)", rep):
                frames = re.findall(r"  (\S+)\(\)\n\s+(\S+):(\d+)", blk.group(1))
                pick = None
                for fn, path, line in frames:
                    if "AliceO2Group/Control/" in fn and "verif_" not in path:
                        pick = (fn, path, line)
                        break
                if pick is None and frames:
                    pick = frames[0]
                if pick:
                    fn = pick[0].split("AliceO2Group/Control/")[-1]
                    path = re.sub(r"^.*?/(core|common|configuration|apricot)/", r"\1/", pick[1])
                    sites.append("%s (%s:%s)" % (fn, path, pick[2]))
            key = tuple(sorted(sites[:2])) if sites else ("?",)
            res[key] = res.get(key, 0) + 1
    return res


def run(ctx):
    dev = ctx.deviation_open(DEV_ITER)
    shared = ctx.deviation_open(DEV_ERR)
    mask = ctx.deviation_open(DEV_MASK)
    quick = ctx.tier == "quick"
    nw = int(os.environ.get("VERIF_WORKERS", "0")) or vlib.NCPU
    ctx.assumptions += [
        "templates use a small fixed vocabulary of expressions (x == 'c', x != 'c', {{ x }}, Parent().Path); the expression "
        "language (expr-lang), the YAML parser and the repository / task-class lookup of workflow.Load are outside",
        "the root template is unmarshalled and processed exactly like workflow.Load does (VerifWLLoad), with an in-memory "
        "sub-workflow loader instead of the repository manager and the mock:// configuration service",
        "schedules: the Go scheduler (free), seeded yields at goroutine start, and gated schedules of the iterator child "
        "goroutines derived from the WorkflowLoadErr counterexample; not all interleavings of the real goroutines are enumerated",
    ]
    ctx.rule = ("case = one abstract template (T, uv): a state of WorkflowLoadGen enumerated exhaustively per slice of the family, or "
                "visited by tlc -simulate; each case = 8 switch settings x 3 repetitions (+ gated schedules when it contains an "
                "iterator) of the real loader; non-trivial = contains an iterator, a disabled/conditional role, an include or a "
                "poisoned role; distinct = distinct (T, uv)")

    # All TLC runs of the check (error hand-over models, the exhaustive slices of the template family, the simulation)
    # and the harness build are independent: they run concurrently, results are consumed below in a fixed order.
    slices = SLICES_QUICK if quick else SLICES_THOROUGH
    rp = None
    if ctx.replay:
        # --replay <evidence/replays/C15/*.json>: only the recorded template (the tiny slice below just delivers the catalogue)
        with open(ctx.replay) as fh:
            rp = json.load(fh)["replay"]
        slices = [("catalogue", 1, 1, ["task"], ["none"], ["T"], ["none"], ["none"], [], False, ["plain"], ["none"])]
    nsim = 1 if ctx.replay else (25 if quick else 40)
    pool = ThreadPoolExecutor(max_workers=max(2, min(nw, 12)))
    wk = 2 if quick else max(2, min(nw // 2, 6))
    fut = {}
    fut["err_a"] = pool.submit(ptlc, ctx, "err_a", "WorkflowLoadErr", cfg_err(2, [1], shared), 2)
    fut["err_agg"] = pool.submit(ptlc, ctx, "err_agg", "WorkflowLoadErr", cfg_err(2, [1, 2], False), 2)
    if not quick:
        fut["err_b"] = pool.submit(ptlc, ctx, "err_b", "WorkflowLoadErr", cfg_err(3, [1, 3], shared), 2)
        fut["err_c"] = pool.submit(ptlc, ctx, "err_c", "WorkflowLoadErr", cfg_err(3, [2], False), 2)
    for sl in slices:
        fut["slice_" + sl[0]] = pool.submit(ptlc, ctx, "slice_" + sl[0], "WorkflowLoadGen", cfg_gen(*sl[1:]), wk, ["-dump", "states"])
    # TLC enumerates ALL successors of a state to pick one: simulation runs over seeded sub-vocabularies of the family
    # (one batch in the quick tier, several differently drawn batches in the thorough tier)
    nbatch = 1 if (quick or ctx.replay) else 6
    for bi in range(nbatch):
        rs_ = random.Random(ctx.seed * 7 + 3 + 1009 * bi)

        def pick(xs, n, keep):
            rest = [x for x in xs if x not in keep]
            rs_.shuffle(rest)
            return list(keep) + rest[:max(0, n - len(keep))]
        sim = (SIM[0], SIM[1], SIM[2], pick(SIM[3], 6, ["none"]), pick(SIM[4], 4, ["T"]), pick(SIM[5], 3, ["none"]),
               pick(SIM[6], 3, ["none"]), pick(SIM[7], 3, []), SIM[8], pick(SIM[9], 3, []), pick(SIM[10], 2, ["none"]), SIM[11],
               pick(SIM[12], 3, []), pick(SIM[13], 2, []))
        fut["sim%d" % bi] = pool.submit(ptlc, ctx, "sim%d" % bi, "WorkflowLoadGen", cfg_gen(*sim, invs=False), 1,
                                        ["-simulate", "file=sim/b,num=%d" % nsim, "-depth", str(SIM[0] + 1),
                                         "-seed", str(ctx.seed * 104729 + 17 + bi)])
    fut["build"] = pool.submit(ctx.build, "wfload")

    # 1. schedule-dependent part: error hand-over of concurrently processed children
    predicted = None
    r = account(ctx, fut["err_a"].result(), "WorkflowLoadErr", "N=2,Fails={1},SharedErr=%s" % shared)
    if not quick:
        r3 = account(ctx, fut["err_b"].result(), "WorkflowLoadErr", "N=3,Fails={1,3},SharedErr=%s" % shared)
        account(ctx, fut["err_c"].result(), "WorkflowLoadErr", "N=3,Fails={2},SharedErr=False")
        if r3.violated and not r.violated:
            r = r3
    if r.violated:
        predicted = r.violated[0]
        cex = r.counterexample()
        acts = [(a, args) for (a, args, st) in cex]
        ctx.sample({"model_counterexample": predicted, "steps": ["%s(%s)" % (a, ",".join(args)) for (a, args) in acts]})
        # shape of the counterexample: the failing child's Run, then a sibling's Run, then the failing child's Check
        runs = [i for i, (a, args) in enumerate(acts) if a == "Run"]
        if len(runs) < 2:
            raise vlib.Inconclusive("unexpected counterexample shape of WorkflowLoadErr")
        # replayed as schedule "first:K" (for every K): child K's ProcessTemplates returns first, its siblings' return
        # next, then child K reads the shared err - imposed with gates on wl.iter.child.start / wl.iter.child.done
    # the aggregator path (goroutine-local err, racy Append) must be fine in any case
    ragg = account(ctx, fut["err_agg"].result(), "WorkflowLoadErr", "N=2,Fails={1,2},SharedErr=False")
    if not ragg.no_error:
        raise vlib.Inconclusive("WorkflowLoadErr with goroutine-local err violates %s (the model is wrong)" % ragg.violated)

    # 2. the template family: exhaustive slices + random larger templates
    cases = {}
    origin = {}

    def add_case(st, org):
        sp = st.get("sp", "canon")
        key = json.dumps({"T": st["T"], "uv": st["uv"], "sp": sp}, sort_keys=True)
        if key not in cases:
            cases[key] = {"T": st["T"], "uv": st["uv"], "sp": sp}
            origin[key] = org

    subs = None
    for sl in slices:
        name = sl[0]
        r = account(ctx, fut["slice_" + name].result(), "WorkflowLoadGen", "slice:" + name)
        if not r.no_error:
            ctx.save_debug(r, "tlc_gen_%s.txt" % name)
            raise vlib.Inconclusive("sanity invariant of Load violated on slice %s: %s (the model is wrong)" % (name, r.violated))
        if subs is None:
            rec = r.records("SUBS")
            if not rec:
                raise vlib.Inconclusive("sub-workflow catalogue not printed by TLC")
            subs = rec[0][1]
        sts = states_from_dump(os.path.join(r.dir, "states.dump"))
        if len(sts) != r.distinct:
            raise vlib.Inconclusive("dump of slice %s has %d states, TLC reports %d" % (name, len(sts), r.distinct))
        for st in sts:
            add_case(st, "slice:" + name)
        ctx.log("slice %s: %d templates" % (name, len(sts)))
        os.remove(os.path.join(r.dir, "states.dump"))
    if ctx.replay:
        cases.clear()
        add_case({"T": rp["T"], "uv": rp["uv"], "sp": rp.get("sp", "canon")}, "replay")
    nb = len(cases)
    nbeh = 0
    swall = 0.0
    for bi in range(nbatch):
        rs = fut["sim%d" % bi].result()
        if rs.rc == 124:
            raise vlib.Inconclusive("TLC simulation timeout")
        behs = []
        for f in sorted(glob.glob(os.path.join(rs.dir, "sim", "b_*")), key=vlib._natkey):
            with open(f) as fh:
                behs.append(tlaval.parse_simfile(fh.read()))
        if not behs:
            ctx.save_debug(rs, "tlc_sim_WorkflowLoadGen.txt")
            raise vlib.Inconclusive("TLC simulation of WorkflowLoadGen produced no behaviours: %s" % vlib.tail(rs.out))
        ctx.ntlc += 1
        nbeh += len(behs)
        swall = max(swall, rs.wall)
        for b in behs:
            for (a, args, st) in b[1:]:
                if not ctx.replay:
                    add_case(st, "simulate")
    ctx.log("simulate: %d behaviours in %d batch(es), %d new templates (%.1fs)" % (nbeh, nbatch, len(cases) - nb, swall))
    ctx.extra["exhaustive_slices"] = [m for m in ctx.model_runs if m["module"] == "WorkflowLoadGen"]

    scen = []
    for i, (key, c) in enumerate(cases.items()):
        s = {"id": i + 1, "T": c["T"], "uv": c["uv"], "sp": c["sp"]}
        if has_for(c["T"]) and may_err(c["T"]):
            s["sched"] = ["first:0", "first:1"]
        scen.append(s)
    by_id = {s["id"]: s for s in scen}
    keys = list(cases.keys())

    # 3. the real loader
    binp = fut["build"].result()
    pool.shutdown()
    hdr = {"catalogue": True, "subs": subs, "probe": ["flag", "it", "jt"]}
    scn_file = ctx.path("scenarios.ndjson")
    ctx.write_ndjson(scn_file, [hdr] + scen)
    shards = max(1, min(nw, 16))

    crashes = []

    def run_driver(binary, scn_path, tag, env=None, ok_codes=(0,)):
        """Runs the shards of the driver in parallel.  A panic of the loader (possibly in one of its child goroutines) kills
        the shard's process: the load in progress is read from the shard's -cur file, recorded as a crashed outcome of that
        case (the case is not continued), and the shard is restarted with -resume."""
        e = dict(os.environ)
        e.update(env or {})

        def start(k, resume):
            tf = ctx.path("trace_%s_%d.ndjson" % (tag, k))
            cmd = [binary, "-scenarios", scn_path, "-trace", tf, "-cur", tf + ".cur", "-shard", str(k), "-shards", str(shards),
                   "-seed", str(ctx.seed)] + (["-resume"] if resume else [])
            return tf, subprocess.Popen(cmd, env=e, stdout=subprocess.PIPE, stderr=subprocess.PIPE, text=True)

        procs = [start(k, False) for k in range(shards)]
        out_file = ctx.path("trace_%s.ndjson" % tag)
        errs = []
        t_end = time.time() + 2400
        with open(out_file, "w") as out:
            for k in range(shards):
                tf, p = procs[k]
                ncrash = 0
                while True:
                    try:
                        so, se = p.communicate(timeout=max(1, t_end - time.time()))
                    except subprocess.TimeoutExpired:
                        p.kill()
                        raise vlib.Inconclusive("wfload timeout")
                    m = re.search(r"(?m)^(panic: .*|fatal error: .*)$", se or "")
                    if p.returncode == 2 and m and os.path.exists(tf + ".cur"):
                        try:
                            with open(tf + ".cur") as fh:
                                cur = json.loads(fh.read())
                            sc_ = by_id[cur["scn"]]
                        except (ValueError, KeyError) as ex:
                            raise vlib.Inconclusive("the loader crashed (%s) but the load in progress could not be read from %s: %s" % (
                                m.group(1)[:100], tf + ".cur", ex))
                        msg = m.group(1)[:160]
                        goro = re.search(r"(?m)^goroutine \d+ \[running\]:\n(\S+)\(", se)
                        where = re.findall(r"(?m)^(github.com/AliceO2Group/Control/[^\n]+)\([^()\n]*\)$", se)
                        rec = {"ev": "Case", "scn": cur["scn"], "T": sc_["T"], "uv": sc_["uv"], "sp": sc_["sp"],
                               "outs": [{"ok": False, "hash": "", "tree": [], "emsg": "loader crashed: " + msg, "crashed": True}],
                               "runs": [cur["run"] + [1, 0]], "seq": 0}
                        with open(tf, "a") as fh:
                            fh.write(json.dumps(rec, separators=(",", ":")) + "\n")
                        crashes.append({"scn": cur["scn"], "run": cur["run"], "panic": msg,
                                        "in": (where[0].replace("github.com/AliceO2Group/Control/", "") if where else
                                               (goro.group(1) if goro else "?")), "phase": tag})
                        ncrash += 1
                        if ncrash > 400:
                            raise vlib.Inconclusive("the loader crashed on more than 400 cases of one shard: %s" % msg)
                        tf, p = start(k, True)
                        continue
                    if p.returncode not in ok_codes:
                        raise vlib.Inconclusive("wfload failed rc=%d: %s" % (p.returncode, vlib.tail(se or so, 30)))
                    break
                errs.append(se)
                with open(tf) as fh:
                    for line in fh:
                        out.write(line)
                os.remove(tf)
        return out_file, "".join(errs)

    ctx.extra["loader_crashes"] = crashes
    trace_file, _ = run_driver(binp, scn_file, "main")
    lines = ctx.read_ndjson(trace_file)
    if len(lines) != len(scen):
        raise vlib.Inconclusive("driver recorded %d cases, %d expected" % (len(lines), len(scen)))
    nloads = sum(len(x["runs"]) for x in lines)
    ctx.log("loaded %d cases, %d loads of the real code" % (len(lines), nloads))
    ctx.traces = len(lines)
    ctx.extra["loads"] = nloads
    ctx.extra["gated_loads"] = sum(1 for x in lines for rr in x["runs"] if rr[6] > 0)
    for s in scen:
        T = s["T"]
        nontrivial = any(n["for"] or n["en"][0] != "T" or n["k"] == "inc" or n["ps"] for n in T)
        ctx.count_case(keys[s["id"] - 1], nontrivial=nontrivial)
    ex = next((x for x in lines if len(x["T"]) >= 3 and any(n["for"] for n in x["T"]) and x["outs"][0]["ok"]), lines[0])
    ctx.sample({"case": {"scn": ex["scn"], "T": ex["T"], "uv": ex["uv"]}, "outcomes": ex["outs"], "runs": len(ex["runs"])})

    # 4. trace validation (expected results computed by the TLA+ Load)
    def validate(tfile):
        return ctx.validate("WorkflowLoadTrace", None, tfile, cfg_text=cfg_trace(dev, mask, shared), timeout=2400)

    viol, drift, tr = validate(trace_file)
    ctx.exhaustive = False
    by_scn = {x["scn"]: x for x in lines}
    judge(ctx, viol, drift, by_scn, by_id, origin, keys, "main")

    if predicted and not ctx.replay:
        hit = [v for v in viol if v[1] == "AllOrNothing"]
        if not hit:
            raise vlib.Inconclusive("MODEL-UNREPRODUCED: WorkflowLoadErr violates %s (shared err in the iterator path) but no gated "
                                    "schedule made the real loader swallow an error" % predicted)

    # 5. thorough: the same under the race detector, on the cases with concurrency in them
    if not quick and not ctx.replay:
        sub = [s for s in scen if has_for(s["T"]) or any(n["ps"] for n in s["T"])]
        rng = random.Random(ctx.seed)
        rng.shuffle(sub)
        sub = sorted(sub[:1500], key=lambda s: s["id"])
        racebin = ctx.build("wfload", race=True)
        scn2 = ctx.path("scenarios_race.ndjson")
        ctx.write_ndjson(scn2, [hdr] + sub)
        logdir = ctx.path("race", "x")
        tf2, _ = run_driver(racebin, scn2, "race", env={"GORACE": "halt_on_error=0 log_path=%s" % os.path.join(os.path.dirname(logdir), "r")},
                            ok_codes=(0, 66))
        lines2 = ctx.read_ndjson(tf2)
        viol2, drift2, _ = validate(tf2)
        judge(ctx, viol2, drift2, {x["scn"]: x for x in lines2}, by_id, origin, keys, "race")
        ctx.traces += len(lines2)
        ctx.extra["race_cases"] = len(lines2)
        races = parse_race_logs(glob.glob(os.path.join(os.path.dirname(logdir), "r.*")))
        ctx.extra["race_reports"] = {" <-> ".join(k): v for k, v in races.items()}
        for k, v in sorted(races.items(), key=lambda kv: -kv[1]):
            attributable = any("iteratorRole).ProcessTemplates" in f for f in k)
            ctx.observations.append("go -race: DATA RACE between %s (%d report(s)) in concurrent template processing; %s" % (
                " and ".join(k), v,
                "this is the shared `err` / roleErrors of iteratorRole.ProcessTemplates, the cause of finding %s (judged under Determinism / "
                "AllOrNothing through the gated schedule, not counted again here)" % DEV_ERR if attributable else
                "candidate finding under Determinism (no wrong tree or lost error was observed from it; reported, not failed on)"))


def judge(ctx, viol, drift, by_scn, by_id, origin, keys, phase):
    for d in drift:
        ctx.drift.append({"scn": d[1], "line": d[2], "phase": phase, "T": by_id.get(d[1], {}).get("T")})
    flagged = {}
    for v in viol:
        inv, scn, line, det = v[1], v[2], v[3], v[4]
        if inv == "LoaderSurvives":
            x = by_scn.get(scn, {})
            out = x["outs"][det[0] - 1]
            run = x["runs"][0]
            cr = next((c for c in ctx.extra.get("loader_crashes", []) if c["scn"] == scn and c["phase"] == phase), {})
            flagged.setdefault(scn, set()).add("loader-crash")
            ctx.add_violation({"inv": "LoaderSurvives", "cause": "unknown", "pattern": "loader crashed", "panic": out["emsg"],
                               "in": cr.get("in", "?"), "switches": "%d%d%d" % (run[0], run[1], run[2]), "sched": run[4], "scn": scn,
                               "phase": phase, "spelling": x.get("sp", "canon"), "origin": origin.get(keys[scn - 1], "?")},
                              replay_obj={"T": x["T"], "uv": x["uv"], "sp": x.get("sp", "canon"), "outcome": out, "runs": x["runs"]})
            continue
        if inv not in ("Spec", "AllOrNothing"):
            continue
        x = by_scn.get(scn, {})
        oi, expl, nruns, brief = det[0], det[1], det[2], det[3]
        out = x["outs"][oi - 1]
        runs = [r for r in x["runs"] if r[5] == oi]
        T = x["T"]
        cause = expl if expl != "unexplained" else "unknown"
        flagged.setdefault(scn, set()).add(cause)
        if cause != "unknown" and cause not in ctx.extra.setdefault("finding_examples", {}):
            ctx.extra["finding_examples"][cause] = {"inv": inv, "T": T, "uv": x["uv"], "expected": "error" if inv == "AllOrNothing" else
                                                    "the tree Load(T, uv) (see spec/WorkflowLoad.tla)", "observed": out, "runs": runs[:4]}
        if cause == DEV_ERR:
            bs = ctx.extra.setdefault("shared_err_by_sched", {})
            for r in runs:
                bs[r[4]] = bs.get(r[4], 0) + 1
        sw = sorted({"%d%d%d" % (r[0], r[1], r[2]) for r in runs})
        sig = {"inv": inv, "cause": cause, "shape": shape_of(T) if cause == DEV_ITER else ("error-under-iterator" if cause == DEV_ERR else
                                                                       ("error-in-enabled-expression" if cause == DEV_MASK else "?")),
               "switches": "all" if len(sw) == 8 else ",".join(sw), "scheds": sorted({r[4] for r in runs}), "scn": scn, "phase": phase,
               "origin": origin.get(keys[scn - 1], "?")}
        sig["spelling"] = x.get("sp", "canon")
        ctx.add_violation(sig, replay_obj={"T": T, "uv": x["uv"], "sp": x.get("sp", "canon"), "outcome": out, "all_outcomes": x["outs"], "runs": runs[:12]})
    for v in viol:
        inv, scn, line, det = v[1], v[2], v[3], v[4]
        if inv != "Determinism":
            continue
        x = by_scn.get(scn, {})
        nouts, nconf = det[0], det[1]
        if scn in flagged and nconf <= 1:
            # the differing outcomes are exactly the ones already reported under Spec / AllOrNothing (same cause)
            for cause in flagged[scn]:
                ctx.extra.setdefault("determinism_also_broken_by", {}).setdefault(cause, 0)
                ctx.extra["determinism_also_broken_by"][cause] += 1
            continue
        ctx.add_violation({"inv": "Determinism", "cause": "unknown", "scn": scn, "phase": phase, "outcomes": nouts,
                           "origin": origin.get(keys[scn - 1], "?")},
                          replay_obj={"T": x.get("T"), "uv": x.get("uv"), "sp": x.get("sp", "canon"), "all_outcomes": x.get("outs"),
                                      "runs": x.get("runs")})
