"""C05 - tasks are placed only where constraints and resources allow.

Model: spec/Placement.tla - a relational/functional specification: Sat (every constraint), Merged (nearest
definition wins), Fits (cpu, mem, ports cover the template), ParseRanges (static ranges as written), the
relational PlacementOK(offers, descs, obs) = P0..P5 for one OFFERS round, and an implementation-shaped model
of the round with BOOLEAN deviation constants.

Binding (pure level, complete): TLC enumerates the input catalogues (the states of Placement!PureSpec ARE
the cases; PlacementGen prints them) plus seeded random cases beyond them; harness/cmd/placement calls the
REAL exported functions on every case and records input and output; spec/PlacementTrace.tla, run by TLC over
the recorded file, compares every output with the model of the code (strict, DRIFT) and evaluates the
property formulas on it (monitor, VIOL).  Expectations are computed by the TLA+ definitions only.

Round level: specified and model checked; the trace specification for the lines the whole-core simulation
will emit is self-tested here on synthetic rounds (toy allocator of the driver, and outcomes of the TLA+
implementation-shaped model) - that self-test is no evidence about the real scheduler and is labelled so.
"""
import json
import re

import tlaval
import vlib

KEY_SAT = "satisfy-last-constraint-only"
KEY_RNG = "range-end-read-from-begin"
W = min(4, vlib.NCPU)

PURE_INVS = ["ImplSatIsSat", "ImplParseIsParse", "SatIsConjunction", "MergeNearestWins", "FitsMonotone", "FitsImplSound",
             "ParseDenotes"]
# model invariant -> the monitor's soft invariant that must flag the replayed counterexample
MONITOR_OF = {"ImplSatIsSat": "SatAllConstraints", "ImplParseIsParse": "RangesAsWritten"}


def tf(b):
    return "TRUE" if b else "FALSE"


def consts(sat, rng, scalar, static, classes, tier):
    return """CONSTANTS
  Code_SatisfyLastConstraintOnly = %s
  Code_RangeEndIsBegin = %s
  Code_NoScalarSubtraction = %s
  Code_StaticPortsNotReserved = %s
  Code_FitsIgnoresPortClasses = %s
  Tier = "%s"
""" % (tf(sat), tf(rng), tf(scalar), tf(static), tf(classes), tier)


def cfg(spec, k, invs):
    return "SPECIFICATION %s\n%s%sCHECK_DEADLOCK FALSE\n" % (spec, k, ("INVARIANTS " + " ".join(invs) + "\n") if invs else "")


def to_json(v):
    """TLA+ value (as parsed by tlaval) -> JSON value; sets become sorted lists."""
    if isinstance(v, dict):
        if "$set" in v:
            xs = [to_json(x) for x in v["$set"]]
            return sorted(xs) if all(isinstance(x, int) for x in xs) else sorted(xs, key=lambda x: json.dumps(x, sort_keys=True))
        return {k: to_json(x) for k, x in v.items()}
    if isinstance(v, list):
        return [to_json(x) for x in v]
    return v


def case_to_scenario(sid, case, origin):
    case = to_json(case)
    fn = case.pop("fn")
    return {"id": sid, "fn": fn, "in": case, "origin": origin}


def initial_state_counterexample(out):
    m = re.search(r"is violated by the initial state:\n(.*?)\n\n", out, re.S)
    if not m:
        return None
    return tlaval.parse_state(m.group(1))


def key_of(s):
    return s["fn"] + json.dumps(s["in"], sort_keys=True)


def run(ctx):
    quick = ctx.tier == "quick"
    tier = ctx.tier
    dev_sat = ctx.deviation_open(KEY_SAT)
    dev_rng = ctx.deviation_open(KEY_RNG)
    ctx.assumptions += [
        "EQUALS is the only constraint operator (the code cannot unmarshal another one); agent attributes are TEXT attributes "
        "with unique names; a level of the role tree defines an attribute at most once",
        "cpu in milli-cores and mem in MB as integers (the driver divides by 1000 for the real float64 API); ports and range "
        "bounds within 0..65535; only ' ' as white space in range expressions",
        "role chains are built from workflow template YAML by the code's own unmarshalling (aggregator roles ending in a task "
        "role), without template processing, iterator or include roles",
        "Resources.Satisfy is called with one cpus, one mem and one ports resource (or without one of them)",
        "ROUND LEVEL: the OFFERS handler (scheduler.go resourceOffers / makeTaskForMesosResources) is specified (PlacementOK) "
        "and modelled here but NOT yet exercised on the real code: that needs the whole-core simulation; the round-level trace "
        "specification is self-tested on synthetic rounds only",
    ]
    ctx.rule = ("pure level: one evaluation = one input case of Satisfy / MergeParent / role chain + BuildDescriptorConstraints (+Satisfy on "
                "3 agents) / Resources.Satisfy / RangesFromExpression (+ResourceWants YAML), enumerated exhaustively by TLC from the "
                "catalogues of Placement.tla (tier-sized) plus seeded random cases beyond them (tlc -simulate, RandomElement); every case "
                "is run on the real function and validated by TLC; distinct = distinct (function, input)")

    # ---------------- 1. pure level: model checking over the catalogues
    k_pure = consts(dev_sat, dev_rng, False, False, True, tier)
    invs = list(PURE_INVS)
    predicted = {}   # model invariant -> counterexample case
    first = None
    while True:
        r = ctx.model_check("Placement", "pure-" + tier, cfg_text=cfg("PureSpec", k_pure, invs), workers=W, timeout=500)
        if first is None:
            first = r
        if not r.violated:
            break
        inv = r.violated[0]
        st = initial_state_counterexample(r.out)
        if st is None or inv not in MONITOR_OF:
            ctx.save_debug(r, "tlc_pure_violation.txt")
            raise vlib.Inconclusive("the model's own invariant %s fails on the catalogue (specification error): %s" % (inv, vlib.tail(r.out, 12)))
        predicted[inv] = case_to_scenario(0, st["c"], "model-counterexample:" + inv)
        invs.remove(inv)
    if (dev_sat and "ImplSatIsSat" not in predicted) or (dev_rng and "ImplParseIsParse" not in predicted):
        raise vlib.Inconclusive("an open deviation constant does not make the model violate its invariant (catalogue too small?)")

    # ---------------- 2. the cases, printed by TLC
    g = ctx.tlc("PlacementGen", None, workers=1, cfg_text=cfg("GenPureSpec", k_pure, ["EmitCase"]), timeout=500)
    cases = g.records("CASE")
    if not g.no_error or len(cases) != g.distinct or not cases:
        ctx.save_debug(g, "tlc_gen.txt")
        raise vlib.Inconclusive("case generation failed: %d cases printed, %d states: %s" % (len(cases), g.distinct, vlib.tail(g.out, 8)))
    scenarios = []
    sid = 0
    for cs in cases:
        sid += 1
        scenarios.append(case_to_scenario(sid, cs[1], "catalogue"))
    ncat = len(scenarios)
    nrand = 300 if quick else 6000
    gr = ctx.tlc("PlacementGen", None, workers=1, sim="num=1", extra=["-depth", str(nrand), "-seed", str(ctx.seed)],
                 cfg_text=cfg("GenRandSpec", k_pure, ["EmitCase"]), timeout=500)
    rcases = gr.records("CASE")
    if len(rcases) < nrand // 2:
        ctx.save_debug(gr, "tlc_genrand.txt")
        raise vlib.Inconclusive("random case generation failed: %s" % vlib.tail(gr.out, 8))
    seen = {key_of(s) for s in scenarios}
    for cs in rcases:
        s = case_to_scenario(sid + 1, cs[1], "random")
        if key_of(s) in seen:
            continue
        seen.add(key_of(s))
        sid += 1
        scenarios.append(s)
    by_key = {key_of(s): s for s in scenarios}
    for inv, pc in predicted.items():
        if key_of(pc) not in by_key:
            raise vlib.Inconclusive("model counterexample of %s is not among the generated cases" % inv)
        by_key[key_of(pc)]["origin"] = pc["origin"]
        pc["id"] = by_key[key_of(pc)]["id"]

    # ---------------- 3. the real functions
    binp = ctx.build("placement")
    scn_file = ctx.path("scenarios.ndjson")
    trace_file = ctx.path("trace.ndjson")
    ctx.write_ndjson(scn_file, [{"id": s["id"], "fn": s["fn"], "in": s["in"]} for s in scenarios])
    out = ctx.run([binp, "-mode", "pure", "-scenarios", scn_file, "-trace", trace_file], timeout=600)
    ctx.log("real functions: " + out.strip())
    lines = ctx.read_ndjson(trace_file)
    if len(lines) != len(scenarios):
        raise vlib.Inconclusive("driver recorded %d lines for %d cases" % (len(lines), len(scenarios)))
    by_id = {s["id"]: s for s in scenarios}
    line_of = {x["scn"]: x for x in lines}
    per_fn = {}
    for s in scenarios:
        ctx.count_case(key_of(s))
        per_fn[s["fn"]] = per_fn.get(s["fn"], 0) + 1
    for fn in ("Satisfy", "RoleChain", "ResSatisfy", "ParseRanges"):
        ex = [x for x in lines if x["fn"] == fn]
        if ex:
            x = ex[len(ex) // 2]
            ctx.sample({"fn": fn, "in": x["in"], "out": x["out"]})

    # ---------------- 4. trace validation by TLC: conformance + monitor
    k_trace = consts(dev_sat, dev_rng, False, False, True, "quick")
    viol, drift, tr = ctx.validate("PlacementTrace", None, trace_file, cfg_text="SPECIFICATION TraceSpec\n" + k_trace +
                                   "INVARIANT PrintEnd\nCHECK_DEADLOCK FALSE\n", timeout=800)
    if tr.records("OPENROUND"):
        raise vlib.Inconclusive("trace ended inside a round")
    ctx.log("trace validation: %d lines, %d VIOL, %d DRIFT, %d OBS (%.1fs)" % (len(lines), len(viol), len(drift), len(tr.records("OBS")), tr.wall))
    ctx.traces = len(scenarios)
    ctx.exhaustive = True
    ctx.extra["cases"] = {"catalogue": ncat, "random": len(scenarios) - ncat, "per_function": per_fn}
    ctx.extra["trace_lines"] = len(lines)
    for d in drift:
        s = by_id.get(d[1], {})
        ctx.drift.append({"scn": d[1], "line": d[2], "what": str(d[3])[:300], "origin": s.get("origin", "?")})
    seen_v = set()
    flagged = {}
    for v in viol:
        inv, scn, line, detail = v[1], v[2], v[3], v[4]
        pattern = detail[0] if isinstance(detail, list) and detail and isinstance(detail[0], str) else "-"
        flagged.setdefault(scn, set()).add(inv)
        if (inv, scn) in seen_v:
            continue
        seen_v.add((inv, scn))
        s = by_id.get(scn, {})
        ctx.add_violation({"inv": inv, "pattern": pattern, "fn": s.get("fn"), "scn": scn, "line": line, "origin": s.get("origin", "?")},
                          replay_obj={"scenario": s, "trace": line_of.get(scn)})
    for inv, pc in predicted.items():
        if MONITOR_OF[inv] not in flagged.get(pc["id"], set()):
            raise vlib.Inconclusive("MODEL-UNREPRODUCED: the model violates %s on %s but the real function's recorded output was not "
                                    "flagged by the monitor" % (inv, json.dumps(pc["in"])))
    obs = {}
    for o in tr.records("OBS"):
        d = o[4]
        label = o[1] + (": " + d[0] if isinstance(d, list) and d and isinstance(d[0], str) and o[1] == "FitsRejectsFitting" else "")
        obs.setdefault(label, []).append(o[2])
    for label, ids in sorted(obs.items()):
        ex = by_id.get(ids[0], {})
        ctx.observations.append("over-rejection (not a C05 violation) %s: %d case(s), e.g. %s" % (label, len(ids), json.dumps(ex.get("in"))[:220]))

    # ---------------- 5. round level: model checking
    k_rep = consts(False, False, False, False, False, tier)
    rr = ctx.model_check("Placement", "round-repaired-" + tier, cfg_text=cfg("RoundSpec", k_rep, ["RoundOK", "RoundNoPanic"]), workers=W)
    if rr.violated:
        ctx.save_debug(rr, "tlc_round_repaired.txt")
        raise vlib.Inconclusive("the intended placement algorithm violates PlacementOK in the model (specification error): %s" % rr.violated)
    # the code as read (candidates, unconfirmed): which parts of PlacementOK does the model predict to break?
    k_asis = consts(dev_sat, dev_rng, True, True, True, tier)
    pred = {}
    parts = ["RoundP1", "RoundP2", "RoundP3", "RoundP4", "RoundP5", "RoundNoPanic"]
    # thorough: one run per part of PlacementOK (TLC stops at the first violated invariant); quick: the first one only
    for group in ([parts] if quick else [[x] for x in parts]):
        ra = ctx.tlc("Placement", None, workers=W, cfg_text=cfg("RoundSpec", k_asis, group), timeout=300)
        if ra.crashed:
            raise vlib.Inconclusive("TLC failed on the as-read round model: %s" % vlib.tail(ra.out))
        if ra.violated:
            inv = ra.violated[0]
            ce = ra.counterexample()
            last = to_json(ce[-1][2]["rd"]) if ce else {}
            pred[inv] = {"offers": [o["id"] for o in last.get("offers", [])], "descs": [d["id"] for d in last.get("descs", [])],
                         "accepts": last.get("accepts")}
    ctx.extra["round_model_as_read"] = {"constants": {"Code_SatisfyLastConstraintOnly": dev_sat, "Code_RangeEndIsBegin": dev_rng,
                                                      "Code_NoScalarSubtraction": True, "Code_StaticPortsNotReserved": True,
                                                      "Code_FitsIgnoresPortClasses": True},
                                        "predicted_violations": pred,
                                        "status": "prediction from code reading, NOT replayed on the real scheduler (needs coresim)"}
    if pred:
        ctx.observations.append("round level (model only, not evidence): with scheduler.go as read (cpu/mem not subtracted, static ports not "
                                "reserved, port classes ignored by Resources.Satisfy) the model breaks %s%s; to be replayed by the whole-core "
                                "simulation" % (", ".join(sorted(pred)), " (quick tier: first violated part only)" if quick else ""))

    # ---------------- 6. round level: self-test of the trace specification (synthetic rounds - no evidence about the code)
    selftest(ctx, binp, k_rep, k_asis)


def outcome_lines(scn, o):
    offers, descs, ex, ob, panic, verdict = (to_json(x) for x in o[1:7])
    yield {"ev": "Round", "scn": scn, "offers": offers, "descs": descs, "exec": ex, "synthetic": "model outcome"}
    for a in ob["accepts"]:
        yield {"ev": "Accept", "scn": scn, "offer": a["offer"], "tasks": a["tasks"]}
    if panic:
        yield {"ev": "Panic", "scn": scn, "what": "model: Min() of no ports"}
        return
    if ob["declined"]:
        yield {"ev": "Decline", "scn": scn, "offers": ob["declined"]}
    yield {"ev": "Verdict", "scn": scn, "deployed": verdict["deployed"], "undeployed": verdict["undeployed"],
           "undeployable": verdict["undeployable"]}


def selftest(ctx, binp, k_rep, k_asis):
    tcfg = lambda k: "SPECIFICATION TraceSpec\n" + k + "INVARIANT PrintEnd\nCHECK_DEADLOCK FALSE\n"
    # (a) toy allocator of the driver, faults injected per round
    tf_ = ctx.path("synth.ndjson")
    ef = ctx.path("synth_expect.json")
    ctx.run([binp, "-mode", "synth", "-trace", tf_, "-expect", ef])
    with open(ef) as fh:
        expect = json.load(fh)
    r = ctx.tlc("PlacementTrace", None, workers=1, env={"TRACE_FILE": tf_}, cfg_text=tcfg(k_rep), timeout=300)
    if not r.records("END") or not r.no_error or r.records("OPENROUND"):
        ctx.save_debug(r, "tlc_synth.txt")
        raise vlib.Inconclusive("SELF-TEST: round-level trace specification did not consume the synthetic trace: %s" % vlib.tail(r.out, 12))
    got, drifted = {}, set()
    for v in r.records("VIOL"):
        got.setdefault(v[2], set()).add(v[1])
    for d in r.records("DRIFT"):
        drifted.add(d[1])
    bad = []
    for e in expect:
        if got.get(e["scn"], set()) != set(e["expect"]):
            bad.append("%s: expected %s, monitor said %s" % (e["name"], sorted(e["expect"]), sorted(got.get(e["scn"], set()))))
        if e["nodrift"] and e["scn"] in drifted:
            bad.append("%s: conformance drift on a round produced by the intended algorithm" % e["name"])
    if bad:
        ctx.save_debug(r, "tlc_synth.txt")
        raise vlib.Inconclusive("SELF-TEST of the round-level trace specification failed: " + "; ".join(bad[:4]))
    # (b) outcomes of the implementation-shaped TLA+ model (code as read): monitor verdict must equal the model's, zero drift
    g = ctx.tlc("PlacementGen", None, workers=1, cfg_text=cfg("GenRoundSpec", k_asis, ["EmitRound"]), timeout=300)
    outs = g.records("OUTCOME")
    rounds = g.records("ROUND")
    if not g.no_error or not outs:
        ctx.save_debug(g, "tlc_genround.txt")
        raise vlib.Inconclusive("SELF-TEST: round generation failed: %s" % vlib.tail(g.out, 8))
    mf = ctx.path("modelrounds.ndjson")
    lines = []
    for i, o in enumerate(outs):
        lines += list(outcome_lines(20000 + i, o))
    ctx.write_ndjson(mf, lines)
    r2 = ctx.tlc("PlacementTrace", None, workers=1, env={"TRACE_FILE": mf}, cfg_text=tcfg(k_asis), timeout=600)
    if not r2.records("END") or not r2.no_error or r2.records("OPENROUND"):
        ctx.save_debug(r2, "tlc_modelrounds.txt")
        raise vlib.Inconclusive("SELF-TEST: trace specification did not consume the model outcomes: %s" % vlib.tail(r2.out, 12))
    got2 = {}
    for v in r2.records("VIOL"):
        got2.setdefault(v[2], set()).add(v[1])
    nd = len(r2.records("DRIFT"))
    mism = 0
    for i, o in enumerate(outs):
        model_ok = bool(o[7]) and not o[5]
        if model_ok != (not got2.get(20000 + i)):
            mism += 1
    if nd or mism:
        ctx.save_debug(r2, "tlc_modelrounds.txt")
        raise vlib.Inconclusive("SELF-TEST: trace specification disagrees with the round model on its own outcomes (drift=%d, verdict mismatches=%d)"
                                % (nd, mism))
    ctx.extra["round_trace_spec_selftest"] = {
        "note": "synthetic - no evidence about the real scheduler",
        "toy_rounds": len(expect), "toy_rounds_violating": sum(1 for e in expect if e["expect"]),
        "model_outcomes": len(outs), "model_outcomes_violating": sum(1 for i in range(len(outs)) if got2.get(20000 + i)),
        "round_scenarios_for_coresim": len(rounds)}
    ctx.log("self-test: %d toy rounds, %d model outcomes (%d violating) - trace specification agrees" % (
        len(expect), len(outs), ctx.extra["round_trace_spec_selftest"]["model_outcomes_violating"]))


def round_scenarios(ctx, tier="quick"):
    """Rounds of the catalogue as scenarios for the whole-core simulation: [{offers, descs, exec}]."""
    g = ctx.tlc("PlacementGen", None, workers=1, cfg_text=cfg("GenRoundSpec", consts(False, False, False, False, False, tier), ["EmitRound"]))
    return [dict(zip(("offers", "descs", "exec"), (to_json(x) for x in r[1:4]))) for r in g.records("ROUND")]
