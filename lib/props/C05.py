"""C05 - tasks are placed only where constraints and resources allow.

Model: spec/Placement.tla - a relational/functional specification: Sat (every constraint), Merged (nearest
definition wins), Fits (cpu, mem, ports cover the template), ParseRanges (static ranges as written), the
relational PlacementOK(offers, descs, obs) = P0..P5 for one OFFERS round, and an implementation-shaped model
of the round with BOOLEAN deviation constants.

Binding (pure level, complete): TLC enumerates the input catalogues (the states of Placement!PureSpec ARE
the cases; PlacementGen prints them) plus seeded random cases beyond them; harness/cmd/placement calls the
REAL exported functions on every case and records input and output; spec/PlacementTrace.tla, run by TLC over
the recorded file, compares every output with the model of the code (strict, DRIFT) and evaluates the
property formulas on it (monitor, VIOL).  Expectations are computed by the TLA+ definitions only.

Binding (round level): the OFFERS rounds of a TLC-enumerated catalogue (<= 2 offers x <= 3 descriptors, plus rounds whose
task roles SHARE a task class - the template constrains machine_type, one role overrides it, its sibling does not -
deployed twice in one core so that the task manager's class registry carries over) are rendered
as workflows + task templates + clusters and run on the REAL core in the whole-core simulation (harness/coresim);
the master-side record (offers sent, ACCEPT/DECLINE received, core panic) is validated by TLC: PlacementOK as soft
invariants (monitor) and the implementation-shaped round model as conformance.  The round-level trace specification
is additionally self-tested on synthetic rounds (toy allocator of the driver, outcomes of the TLA+ round model) -
that self-test is no evidence about the real scheduler and is labelled so.
"""
import json
import re
from concurrent.futures import ThreadPoolExecutor

import coresim as cs
import tlaval
import vlib

KEY_SAT = "satisfy-last-constraint-only"
KEY_RNG = "range-end-read-from-begin"
KEY_SCALAR = "offer-scalars-not-subtracted"
KEY_STATIC = "static-ports-not-reserved"
KEY_PANIC = "no-port-left-panics-core"
W = min(4, vlib.NCPU)
EXEC = {"cpu": 10, "mem": 64}   # the core's default executor share: executorCPU 0.01, executorMemory 64

PURE_INVS = ["ImplSatIsSat", "ImplParseIsParse", "SatIsConjunction", "MergeNearestWins", "SharedClassIndependent", "FitsMonotone",
             "FitsImplSound", "ParseDenotes"]
# model invariant -> the monitor's soft invariant that must flag the replayed counterexample
MONITOR_OF = {"ImplSatIsSat": "SatAllConstraints", "ImplParseIsParse": "RangesAsWritten",
              "RoundP1": "P1_ConstraintsAndResources", "RoundP2": "P2_TaskPorts", "RoundP3": "P3_PortsOfferedAndDistinct",
              "RoundP4": "P4_OfferNotExceeded", "RoundP5": "P5_UnusedDeclined", "RoundNoPanic": "NoPanic"}
ROUND_PARTS = ["RoundP1", "RoundP2", "RoundP3", "RoundP4", "RoundP5", "RoundNoPanic"]


def tf(b):
    return "TRUE" if b else "FALSE"


def consts(sat, rng, scalar, static, classes, panic, tier):
    return """CONSTANTS
  Code_SatisfyLastConstraintOnly = %s
  Code_RangeEndIsBegin = %s
  Code_NoScalarSubtraction = %s
  Code_StaticPortsNotReserved = %s
  Code_FitsIgnoresPortClasses = %s
  Code_MinOnEmptyPanics = %s
  Tier = "%s"
""" % (tf(sat), tf(rng), tf(scalar), tf(static), tf(classes), tf(panic), tier)


def model_check(ctx, *a, **kw):
    """ctx.model_check, once more if TLC was killed from outside (rc 143/137: other jobs share the machine)."""
    try:
        return ctx.model_check(*a, **kw)
    except vlib.Inconclusive as e:
        if "rc=143" not in str(e) and "rc=137" not in str(e):
            raise
        ctx.log("TLC was killed from outside; one more attempt")
        return ctx.model_check(*a, **kw)


def cfg(spec, k, invs):
    return "SPECIFICATION %s\n%s%sCHECK_DEADLOCK FALSE\n" % (spec, k, ("INVARIANTS " + " ".join(invs) + "\n") if invs else "")


def to_json(v):
    """TLA+ value (as parsed by tlaval) -> JSON value; sets become sorted lists."""
    if isinstance(v, dict):
        if "$set" in v:
            xs = [to_json(x) for x in v["$set"]]
            return sorted(xs) if all(isinstance(x, int) for x in xs) else sorted(xs, key=lambda x: json.dumps(x, sort_keys=True))
        return {k: to_json(x) for k, x in v.items()}
    if isinstance(v, list):
        return [to_json(x) for x in v]
    return v


def case_to_scenario(sid, case, origin):
    case = to_json(case)
    fn = case.pop("fn")
    return {"id": sid, "fn": fn, "in": case, "origin": origin}


def initial_state_counterexample(out):
    m = re.search(r"is violated by the initial state:\n(.*?)\n\n", out, re.S)
    if not m:
        return None
    return tlaval.parse_state(m.group(1))


def key_of(s):
    return s["fn"] + json.dumps(s["in"], sort_keys=True)


def run(ctx):
    quick = ctx.tier == "quick"
    tier = ctx.tier
    dev_sat = ctx.deviation_open(KEY_SAT)
    dev_rng = ctx.deviation_open(KEY_RNG)
    ctx.assumptions += [
        "EQUALS is the only constraint operator (the code cannot unmarshal another one); agent attributes are TEXT attributes "
        "with unique names; a level of the role tree defines an attribute at most once",
        "cpu in milli-cores and mem in MB as integers (the driver divides by 1000 for the real float64 API); ports and range "
        "bounds within 0..65535; only ' ' as white space in range expressions",
        "role chains are built from workflow template YAML by the code's own unmarshalling (aggregator roles ending in a task "
        "role), without template processing, iterator or include roles",
        "Resources.Satisfy is called with one cpus, one mem and one ports resource (or without one of them)",
        "ROUND LEVEL: OFFERS rounds are run on the real core in the whole-core simulation (simulated Mesos master: every agent's "
        "full resources are offered on REVIVE, so resources held by tasks of EARLIER rounds are offered again - distinctness of "
        "ports and the resource sums are judged within one round); the executor share is the core's default (0.01 cpu, 64 MB); "
        "cpu is compared in milli-cores after rounding; dynamic and control ports are read from TaskInfo.Resources only",
    ]
    ctx.rule = ("pure level: one evaluation = one input case of Satisfy / MergeParent / role chain + BuildDescriptorConstraints (+Satisfy on "
                "3 agents) / several task roles sharing ONE task class whose template constrains an attribute some roles override, built "
                "twice over the same class registry entry (+Satisfy on 4 agents) / Resources.Satisfy / RangesFromExpression (+ResourceWants "
                "YAML), enumerated exhaustively by TLC from the "
                "catalogues of Placement.tla (tier-sized) plus seeded random cases beyond them (tlc -simulate, RandomElement); every case "
                "is run on the real function and validated by TLC; distinct = distinct (function, input).  Round level: one evaluation = one "
                "round of the catalogue of Placement.tla (offers x descriptors, enumerated by TLC; quick tier: a seeded sample) deployed on the "
                "real core by the whole-core simulation (rounds with task roles sharing a task class that the model places completely are "
                "deployed twice in the same core); the first OFFERS round of every deployment is validated by TLC")

    # ---------------- 1. pure level: model checking over the catalogues
    k_pure = consts(dev_sat, dev_rng, False, False, True, True, tier)
    invs = list(PURE_INVS)
    predicted = {}   # model invariant -> counterexample case
    first = None
    g = None
    if not dev_sat and not dev_rng:
        # no open deviation at this level: one TLC run checks the invariants on every case and prints the cases
        r0 = model_check(ctx, "PlacementGen", "pure-" + tier, cfg_text=cfg("GenPureSpec", k_pure, PURE_INVS + ["EmitCase"]), workers=1, timeout=600)
        if not r0.violated:
            g = r0
    while g is None:
        r = model_check(ctx, "Placement", "pure-" + tier, cfg_text=cfg("PureSpec", k_pure, invs), workers=W, timeout=500)
        if first is None:
            first = r
        if not r.violated:
            break
        inv = r.violated[0]
        st = initial_state_counterexample(r.out)
        if st is None or inv not in MONITOR_OF:
            ctx.save_debug(r, "tlc_pure_violation.txt")
            raise vlib.Inconclusive("the model's own invariant %s fails on the catalogue (specification error): %s" % (inv, vlib.tail(r.out, 12)))
        predicted[inv] = case_to_scenario(0, st["c"], "model-counterexample:" + inv)
        invs.remove(inv)
    if (dev_sat and "ImplSatIsSat" not in predicted) or (dev_rng and "ImplParseIsParse" not in predicted):
        raise vlib.Inconclusive("an open deviation constant does not make the model violate its invariant (catalogue too small?)")

    # ---------------- 2. the cases, printed by TLC
    if g is None:
        g = ctx.tlc("PlacementGen", None, workers=1, cfg_text=cfg("GenPureSpec", k_pure, ["EmitCase"]), timeout=500)
    cases = g.records("CASE")
    if not g.no_error or len(cases) != g.distinct or not cases:
        ctx.save_debug(g, "tlc_gen.txt")
        raise vlib.Inconclusive("case generation failed: %d cases printed, %d states: %s" % (len(cases), g.distinct, vlib.tail(g.out, 8)))
    scenarios = []
    sid = 0
    for cs in cases:
        sid += 1
        scenarios.append(case_to_scenario(sid, cs[1], "catalogue"))
    ncat = len(scenarios)
    nrand = 300 if quick else 6000
    gr = ctx.tlc("PlacementGen", None, workers=1, sim="num=1", extra=["-depth", str(nrand), "-seed", str(ctx.seed)],
                 cfg_text=cfg("GenRandSpec", k_pure, ["EmitCase"]), timeout=500)
    rcases = gr.records("CASE")
    if len(rcases) < nrand // 2:
        ctx.save_debug(gr, "tlc_genrand.txt")
        raise vlib.Inconclusive("random case generation failed: %s" % vlib.tail(gr.out, 8))
    seen = {key_of(s) for s in scenarios}
    for cs in rcases:
        s = case_to_scenario(sid + 1, cs[1], "random")
        if key_of(s) in seen:
            continue
        seen.add(key_of(s))
        sid += 1
        scenarios.append(s)
    by_key = {key_of(s): s for s in scenarios}
    for inv, pc in predicted.items():
        if key_of(pc) not in by_key:
            raise vlib.Inconclusive("model counterexample of %s is not among the generated cases" % inv)
        by_key[key_of(pc)]["origin"] = pc["origin"]
        pc["id"] = by_key[key_of(pc)]["id"]

    # ---------------- 3. the real functions
    binp = ctx.build("placement")
    scn_file = ctx.path("scenarios.ndjson")
    trace_file = ctx.path("trace.ndjson")
    ctx.write_ndjson(scn_file, [{"id": s["id"], "fn": s["fn"], "in": s["in"]} for s in scenarios])
    out = ctx.run([binp, "-mode", "pure", "-scenarios", scn_file, "-trace", trace_file], timeout=600)
    ctx.log("real functions: " + out.strip())
    lines = ctx.read_ndjson(trace_file)
    if len(lines) != len(scenarios):
        raise vlib.Inconclusive("driver recorded %d lines for %d cases" % (len(lines), len(scenarios)))
    by_id = {s["id"]: s for s in scenarios}
    line_of = {x["scn"]: x for x in lines}
    per_fn = {}
    for s in scenarios:
        ctx.count_case(key_of(s))
        per_fn[s["fn"]] = per_fn.get(s["fn"], 0) + 1
    for fn in ("Satisfy", "RoleChain", "SharedClass", "ResSatisfy", "ParseRanges"):
        ex = [x for x in lines if x["fn"] == fn]
        if ex:
            x = ex[len(ex) // 2]
            ctx.sample({"fn": fn, "in": x["in"], "out": x["out"]})

    # ---------------- 4. trace validation by TLC: conformance + monitor
    k_trace = consts(dev_sat, dev_rng, False, False, True, True, "quick")
    viol, drift, tr = ctx.validate("PlacementTrace", None, trace_file, cfg_text="SPECIFICATION TraceSpec\n" + k_trace +
                                   "INVARIANT PrintEnd\nCHECK_DEADLOCK FALSE\n", timeout=800)
    if tr.records("OPENROUND"):
        raise vlib.Inconclusive("trace ended inside a round")
    ctx.log("trace validation: %d lines, %d VIOL, %d DRIFT, %d OBS (%.1fs)" % (len(lines), len(viol), len(drift), len(tr.records("OBS")), tr.wall))
    ctx.traces = len(scenarios)
    ctx.exhaustive = True
    ctx.extra["cases"] = {"catalogue": ncat, "random": len(scenarios) - ncat, "per_function": per_fn}
    ctx.extra["trace_lines"] = len(lines)
    for d in drift:
        s = by_id.get(d[1], {})
        ctx.drift.append({"scn": d[1], "line": d[2], "what": str(d[3])[:300], "origin": s.get("origin", "?")})
    seen_v = set()
    flagged = {}
    for v in viol:
        inv, scn, line, detail = v[1], v[2], v[3], v[4]
        pattern = detail[0] if isinstance(detail, list) and detail and isinstance(detail[0], str) else "-"
        flagged.setdefault(scn, set()).add(inv)
        if (inv, scn, pattern) in seen_v:
            continue
        seen_v.add((inv, scn, pattern))
        s = by_id.get(scn, {})
        ctx.add_violation({"inv": inv, "pattern": pattern, "fn": s.get("fn"), "scn": scn, "line": line, "origin": s.get("origin", "?")},
                          replay_obj={"scenario": s, "trace": line_of.get(scn)})
    for inv, pc in predicted.items():
        if MONITOR_OF[inv] not in flagged.get(pc["id"], set()):
            raise vlib.Inconclusive("MODEL-UNREPRODUCED: the model violates %s on %s but the real function's recorded output was not "
                                    "flagged by the monitor" % (inv, json.dumps(pc["in"])))
    obs = {}
    for o in tr.records("OBS"):
        d = o[4]
        label = o[1] + (": " + d[0] if isinstance(d, list) and d and isinstance(d[0], str) and o[1] == "FitsRejectsFitting" else "")
        obs.setdefault(label, []).append(o[2])
    for label, ids in sorted(obs.items()):
        ex = by_id.get(ids[0], {})
        ctx.observations.append("over-rejection (not a C05 violation) %s: %d case(s), e.g. %s" % (label, len(ids), json.dumps(ex.get("in"))[:220]))

    # ---------------- 5. round level
    round_level(ctx, binp, dev_sat, dev_rng)


def round_level(ctx, binp, dev_sat, dev_rng):
    quick = ctx.tier == "quick"
    tier = ctx.tier
    dev_scalar, dev_static, dev_panic = (ctx.deviation_open(k) for k in (KEY_SCALAR, KEY_STATIC, KEY_PANIC))
    k_rep = consts(False, False, False, False, False, False, tier)
    k_code = consts(dev_sat, dev_rng, dev_scalar, dev_static, True, dev_panic, tier)
    outs, rounds, histories = gen_rounds(ctx, k_code)
    # rounds in which the model places every descriptor whatever the order of the offers; those with task roles sharing
    # a task class are deployed twice in the same core (the class registry persists)
    places_all = {}
    for o in outs:
        key = json.dumps([to_json(x) for x in o[1:4]], sort_keys=True)
        v = to_json(o[6])
        places_all[key] = places_all.get(key, True) and not o[5] and not v["undeployed"] and not v["undeployable"]
    cat = []
    for r in rounds:
        rnd = dict(zip(("offers", "descs", "exec"), (to_json(x) for x in r[1:4])))
        if rnd["exec"] != EXEC:
            continue
        shared = len({d.get("class", d["id"]) for d in rnd["descs"]}) < len(rnd["descs"])
        if shared and places_all.get(json.dumps([rnd["offers"], rnd["descs"], rnd["exec"]], sort_keys=True)):
            rnd["deployments"] = 2
        cat.append(rnd)
    bound = 600 if quick else 3000

    def run_real(cat_):
        scs = [round_scenario(100 + i, rnd) for i, rnd in enumerate(cat_)]
        scs += [history_scenario(5000 + i, h) for i, h in enumerate(histories) if h["exec"] == EXEC]
        try:
            return scs, cs.run_scenarios(ctx, scs, timeout=900)
        except vlib.Inconclusive as e:
            # hundreds of core processes are started: a port picked as free may be taken by the time the core binds it
            ctx.log("whole-core simulation failed (%s); one more attempt" % str(e)[:160])
            return scs, cs.run_scenarios(ctx, scs, timeout=900)
    # 5d (started early, in the background while TLC works on 5a-5c): the rounds of the catalogue on the REAL core
    pool = fut = None
    if len(cat) <= bound:
        pool = ThreadPoolExecutor(max_workers=1)
        fut = pool.submit(run_real, cat)

    # 5a. the intended algorithm satisfies PlacementOK (consistency of the relational specification)
    rr = model_check(ctx, "Placement", "round-repaired-" + tier, cfg_text=cfg("RoundSpec", k_rep, ["RoundOK", "RoundNoPanic"]), workers=W)
    if rr.violated:
        ctx.save_debug(rr, "tlc_round_repaired.txt")
        raise vlib.Inconclusive("the intended placement algorithm violates PlacementOK in the model (specification error): %s" % rr.violated)
    # 5b. the scheduler as it is (deviation constants of the open findings): which parts of PlacementOK break?
    predicted = {}
    parts = list(ROUND_PARTS)
    while parts:
        ra = model_check(ctx, "Placement", "round-code-" + tier, cfg_text=cfg("RoundSpec", k_code, parts), workers=W, timeout=300)
        if not ra.violated:
            break
        inv = ra.violated[0]
        ce = ra.counterexample()
        last = to_json(ce[-1][2]["rd"]) if ce else {}
        predicted[inv] = {"offers": [o["id"] for o in last.get("offers", [])], "descs": [d["id"] for d in last.get("descs", [])],
                          "accepts": last.get("accepts")}
        parts.remove(inv)
    ctx.extra["round_model_of_the_code"] = {"predicted_violations": predicted}

    # 5c. self-test of the round-level trace specification on synthetic rounds (no evidence about the code)
    selftest(ctx, binp, k_rep, k_code, outs)

    # 5d. the rounds of the catalogue on the REAL core (whole-core simulation), validated by TLC
    want = set(predicted)
    if fut is None:
        # bound on the number of rounds: the model's counterexample rounds plus a seeded sample of the rest
        rng = __import__("random").Random(ctx.seed)
        ce = {(tuple(v["offers"]), tuple(v["descs"])) for v in predicted.values()}
        forced = [r for r in cat if (tuple(o["id"] for o in r["offers"]), tuple(d["id"] for d in r["descs"])) in ce
                  or any("class" in d for d in r["descs"])]
        rest = [r for r in cat if r not in forced]
        rng.shuffle(rest)
        scenarios, lines = run_real(forced + rest[:bound - len(forced)])
    else:
        scenarios, lines = fut.result()
        pool.shutdown()
    by_id = {s["id"]: s for s in scenarios}
    tlines, nrounds, incomplete = project_rounds(lines, by_id)
    if len(incomplete) > max(2, len(scenarios) // 20):
        raise vlib.Inconclusive("%d of %d OFFERS rounds were not answered in time by the core: %s" % (len(incomplete), len(scenarios), incomplete[:10]))
    scenarios = [s for s in scenarios if s["id"] not in set(incomplete)]
    tf_ = ctx.path("rounds.ndjson")
    ctx.write_ndjson(tf_, tlines)
    viol, drift, tr = ctx.validate("PlacementTrace", None, tf_, cfg_text="SPECIFICATION TraceSpec\n" + k_code +
                                   "INVARIANT PrintEnd\nCHECK_DEADLOCK FALSE\n", timeout=800)
    if tr.records("OPENROUND"):
        raise vlib.Inconclusive("round trace ended inside a round")
    ctx.log("rounds on the real core: %d scenarios, %d OFFERS rounds, %d lines, %d VIOL, %d DRIFT (%.1fs)" % (
        len(scenarios), nrounds, len(tlines), len(viol), len(drift), tr.wall))
    ctx.traces += len(scenarios)
    ctx.extra["rounds_on_real_core"] = {"scenarios": len(scenarios), "offers_rounds": nrounds, "trace_lines": len(tlines),
                                        "scenarios_with_task_roles_sharing_a_class": sum(1 for s in scenarios if len(set(s["model"]["classes"])) < len(s["model"]["descs"])),
                                        "scenarios_deployed_twice": sum(1 for s in scenarios if s["model"]["deployments"] > 1),
                                        "histories_with_template_edits": sum(1 for s in scenarios if "versions" in s["model"]),
                                        "not_answered_in_time": len(incomplete),
                                        "core_panics": sum(1 for x in tlines if x["ev"] == "Panic")}
    for s in scenarios:
        m = s["model"]
        ctx.count_case("round" + json.dumps([m["offers"], m.get("versions", m["descs"]), m["deployments"]], sort_keys=True))
    ex = scenarios[0]
    ctx.sample({"round_scenario": {"offers": ex["model"]["offers"], "descs": ex["model"]["descs"]},
                "trace": [x for x in tlines if x["scn"] == ex["id"]][:6]})
    for d in drift:
        ctx.drift.append({"scn": d[1], "line": d[2], "what": str(d[3])[:300], "origin": "round"})
    seen, flagged = set(), set()
    for v in viol:
        inv, scn, line, detail = v[1], v[2], v[3], v[4]
        pattern = detail[0] if isinstance(detail, list) and detail and isinstance(detail[0], str) else "-"
        flagged.add(inv)
        if (inv, scn, pattern) in seen:
            continue
        seen.add((inv, scn, pattern))
        s = by_id.get(scn, {})
        ctx.add_violation({"inv": inv, "pattern": pattern, "fn": "round", "scn": scn, "line": line, "origin": "catalogue"},
                          replay_obj={"scenario": s, "trace": [x for x in tlines if x["scn"] == scn]})
    for inv in sorted(want):
        if MONITOR_OF[inv] not in flagged:
            if quick:
                ctx.observations.append("the model of the scheduler predicts a violation of %s that the sampled rounds of the quick tier did "
                                        "not show (thorough tier replays the whole catalogue)" % inv)
            else:
                raise vlib.Inconclusive("MODEL-UNREPRODUCED: the model of the scheduler violates %s (%s) but no round of the catalogue run on the "
                                        "real core was flagged with %s" % (inv, json.dumps(predicted[inv])[:300], MONITOR_OF[inv]))


def yq(v):
    return '"%s"' % v


def round_scenario(sid, rnd):
    """One OFFERS round of the catalogue as a whole-core scenario: the offers become the cluster, every descriptor a task
    role (its constraint chain spread over task template / group role / task role). Descriptors with the same `class`
    load ONE task template. rnd["deployments"] > 1: the workflow is deployed that many times in the same core."""
    files = {}
    roles = ""
    classes = {}

    def cts_yaml(cts, ind):
        if not cts:
            return ""
        return ind + "constraints:\n" + "".join("%s  - attribute: %s\n%s    value: %s\n" % (ind, c["attr"], ind, yq(c["value"])) for c in cts)
    for d in rnd["descs"]:
        cls = "c05s%d%s" % (sid, d.get("class", d["id"]))
        classes.setdefault(cls, d["id"])
        if "chain" in d:
            class_cts, group_cts, task_cts = d["chain"]
        else:
            class_cts, group_cts, task_cts = [], None, d["constraints"]
        y = "name: %s\ncontrol:\n  mode: %s\nwants:\n  cpu: %s\n  memory: %s\n" % (
            cls, "direct" if d["controllable"] else "basic", d["cpu"] / 1000.0, d["mem"])
        if d["static_expr"] != "":
            y += "  ports: %s\n" % yq(d["static_expr"])
        role_tcp = d.get("role_tcp", 0)       # inbound TCP channels bound by a role, not by the template
        if d["tcp_inbound"] - role_tcp + d["ipc_inbound"] > 0:
            y += "bind:\n"
            for i in range(d["tcp_inbound"] - role_tcp):
                y += "  - name: t%d\n    type: push\n" % i
            for i in range(d["ipc_inbound"]):
                y += "  - name: i%d\n    type: push\n    addressing: ipc\n" % i
        y += cts_yaml(class_cts, "")
        # the task role a launched task belongs to travels in its environment (read back by the step c05_round)
        y += "command:\n  shell: true\n  value: \"sleep 1000\"\n  env:\n    - \"C05_ROLE={{ c05_role }}\"\n"
        if files.setdefault("tasks/%s.yaml" % cls, y) != y:
            raise vlib.Inconclusive("catalogue error: descriptors of class %s differ in their template" % d.get("class"))
        tag = "    vars:\n      c05_role: %s\n" % yq(d["id"])

        def bind_yaml(ind):
            return ind + "bind:\n" + "".join("%s  - name: r%d\n%s    type: push\n" % (ind, i, ind) for i in range(role_tcp))
        at_group = role_tcp > 0 and d.get("role_bind_at") == "group" and group_cts is not None
        if group_cts is None:
            roles += ("  - name: %s\n" % yq(d["id"]) + tag + cts_yaml(task_cts, "    ") + (bind_yaml("    ") if role_tcp else "")
                      + "    task:\n      load: %s\n" % cls)
        else:
            roles += "  - name: %s\n" % yq("g" + d["id"]) + cts_yaml(group_cts, "    ") + (bind_yaml("    ") if at_group else "") + "    roles:\n"
            roles += ("      - name: %s\n" % yq(d["id"]) + tag.replace("    ", "        ", 1).replace("\n      ", "\n          ")
                      + cts_yaml(task_cts, "        ") + (bind_yaml("        ") if role_tcp and not at_group else "")
                      + "        task:\n          load: %s\n" % cls)
    wf = "c05wf%d" % sid
    files["workflows/%s.yaml" % wf] = "name: %s\nroles:\n%s" % (wf, roles)
    agents = [{"ID": "a" + o["id"], "Host": o["host"], "Attrs": o["attrs"], "CPUs": o["cpus"] / 1000.0, "Mem": o["mem"],
               "Ports": o["ports"]} for o in rnd["offers"]]
    # a core process of its own per scenario (child mode): the step runs the first offers round of each deployment and kills
    # the core - a panic of the OFFERS handler is an observation like any other, and deployment retries stay out
    return {"id": sid, "family": "C05", "agents": agents, "files": files, "core": {"child": True}, "scripts": [], "hooks": {},
            "steps": [{"do": "c05_round", "env": "e1", "wf": wf, "timeout_ms": 10000, "n": rnd.get("deployments", 1)}],
            "model": {"offers": rnd["offers"], "descs": rnd["descs"], "classes": classes, "deployments": rnd.get("deployments", 1)}}


def history_scenario(sid, h):
    """Deployments in ONE core; before deployment k the task templates are rewritten (and committed) in the workflow
    repository to what versions[k] says. The workflow (roles, their constraints) stays as it is."""
    per = [round_scenario(sid, {"offers": h["offers"], "descs": v}) for v in h["versions"]]
    s = per[0]
    wf = [k for k in s["files"] if k.startswith("workflows/")]
    step = s["steps"][0]
    step["n"] = len(per)
    step["vars"] = {}
    for k in range(1, len(per)):
        if any(per[k]["files"][w] != s["files"][w] for w in wf) or set(per[k]["files"]) != set(s["files"]):
            raise vlib.Inconclusive("catalogue error: a history may change task templates only")
        for name, content in per[k]["files"].items():
            if content != per[k - 1]["files"][name]:
                step["vars"]["%d|%s" % (k + 1, name)] = content
    s["model"] = {"offers": h["offers"], "descs": h["versions"][0], "versions": h["versions"], "classes": s["model"]["classes"],
                  "deployments": len(per)}
    return s


def project_rounds(lines, by_id):
    """Master-side events of the whole-core simulation -> Round / Accept / Decline / RoundEnd / Panic lines: the first
    OFFERS round of every deployment of every scenario (a C05Round record ends a deployment's segment)."""
    out = []
    nrounds, incomplete = 0, []
    per = {}
    for ln in lines:
        per.setdefault(ln.get("scn", -1), []).append(ln)
    for scn in sorted(per):
        s = by_id.get(scn)
        if s is None:
            continue
        m = s["model"]
        rl, done, bad = [], 0, False
        state = "before"
        for ln in per[scn]:
            ev = ln["ev"]
            if ev == "MOffers":
                if state != "before":
                    state = "later"      # a retry of the same deployment: not looked at
                    continue
                offers = [{"id": o["id"], "host": o["host"], "attrs": o["attrs"], "cpus": int(round(o["cpus"] * 1000)),
                           "mem": int(round(o["mem"])), "ports": o["ports"]} for o in ln["offers"]]
                # a history: the descriptors as the repository has their templates at THIS deployment
                descs = m["versions"][done] if "versions" in m and done < len(m["versions"]) else m["descs"]
                rl.append({"ev": "Round", "scn": scn, "offers": offers, "descs": descs, "exec": EXEC})
                state = "open"
            elif ev == "MAccept" and state == "open":
                tasks = []
                for t in ln["tasks"]:
                    tk = {"desc": t.get("tag") or m["classes"].get(t["class"], t["class"]), "cpu": int(round(t["cpu"] * 1000)),
                          "mem": int(round(t["mem"])), "ports": t["ports"]}
                    if t.get("control"):
                        tk["control"] = int(t["control"])
                    tasks.append(tk)
                for oid in ln["offers"]:
                    rl.append({"ev": "Accept", "scn": scn, "offer": oid, "tasks": tasks})
            elif ev == "MDecline" and state == "open":
                rl.append({"ev": "Decline", "scn": scn, "offers": ln["offers"]})
            elif ev == "C05Round":
                if ln.get("error"):
                    raise vlib.Inconclusive("coresim scenario %d: %s" % (scn, ln["error"]))
                if ln["panic"] or not ln["alive"]:
                    if state == "before":
                        raise vlib.Inconclusive("the core of scenario %d died outside an OFFERS round: %s" % (scn, ln["panic"]))
                    rl.append({"ev": "Panic", "scn": scn, "what": ln["panic"] or "core process gone"})
                    done += 1
                    break
                if not ln["complete"] or state == "before":
                    bad = True
                    break
                rl.append({"ev": "RoundEnd", "scn": scn})
                done += 1
                state = "before"
                if done >= m.get("deployments", 1):
                    break            # whatever the dying core still sends is not part of the scenario
            elif ev == "End":
                break
        if bad or done == 0:
            incomplete.append(scn)
            continue
        out += rl
        nrounds += done
    return out, nrounds, incomplete


def outcome_lines(scn, o):
    offers, descs, ex, ob, panic, verdict = (to_json(x) for x in o[1:7])
    yield {"ev": "Round", "scn": scn, "offers": offers, "descs": descs, "exec": ex, "synthetic": "model outcome"}
    for a in ob["accepts"]:
        yield {"ev": "Accept", "scn": scn, "offer": a["offer"], "tasks": a["tasks"]}
    if panic:
        yield {"ev": "Panic", "scn": scn, "what": "model: Min() of no ports"}
        return
    if ob["declined"]:
        yield {"ev": "Decline", "scn": scn, "offers": ob["declined"]}
    yield {"ev": "Verdict", "scn": scn, "deployed": verdict["deployed"], "undeployed": verdict["undeployed"],
           "undeployable": verdict["undeployable"]}


def gen_rounds(ctx, k_code):
    """The rounds of the catalogue (ROUND), every outcome of the implementation-shaped model of the code on them (OUTCOME)
    and the histories (HISTORY: deployments in one core between which a task template changes in the repository)."""
    g = ctx.tlc("PlacementGen", None, workers=1, cfg_text=cfg("GenRoundSpec", k_code, ["EmitRound"]), timeout=300)
    outs = g.records("OUTCOME")
    rounds = g.records("ROUND")
    hist = g.records("HISTORY")
    if not g.no_error or not outs or not rounds or not hist:
        ctx.save_debug(g, "tlc_genround.txt")
        raise vlib.Inconclusive("round generation failed: %s" % vlib.tail(g.out, 8))
    return outs, rounds, [dict(zip(("offers", "versions", "exec"), (to_json(x) for x in h[1:4]))) for h in hist]


def selftest(ctx, binp, k_rep, k_code, outs):
    """SELF-TEST of the round-level trace specification on synthetic rounds - no evidence about the real scheduler.
    outs: the OUTCOME records of the implementation-shaped model under the constants of the code."""
    tcfg = lambda k: "SPECIFICATION TraceSpec\n" + k + "INVARIANT PrintEnd\nCHECK_DEADLOCK FALSE\n"
    # (a) toy allocator of the driver, faults injected per round
    tf_ = ctx.path("synth.ndjson")
    ef = ctx.path("synth_expect.json")
    ctx.run([binp, "-mode", "synth", "-trace", tf_, "-expect", ef])
    with open(ef) as fh:
        expect = json.load(fh)
    r = ctx.tlc("PlacementTrace", None, workers=1, env={"TRACE_FILE": tf_}, cfg_text=tcfg(k_rep), timeout=300)
    if not r.records("END") or not r.no_error or r.records("OPENROUND"):
        ctx.save_debug(r, "tlc_synth.txt")
        raise vlib.Inconclusive("SELF-TEST: round-level trace specification did not consume the synthetic trace: %s" % vlib.tail(r.out, 12))
    got, drifted = {}, set()
    for v in r.records("VIOL"):
        got.setdefault(v[2], set()).add(v[1])
    for d in r.records("DRIFT"):
        drifted.add(d[1])
    bad = []
    for e in expect:
        if got.get(e["scn"], set()) != set(e["expect"]):
            bad.append("%s: expected %s, monitor said %s" % (e["name"], sorted(e["expect"]), sorted(got.get(e["scn"], set()))))
        if e["nodrift"] and e["scn"] in drifted:
            bad.append("%s: conformance drift on a round produced by the intended algorithm" % e["name"])
    if bad:
        ctx.save_debug(r, "tlc_synth.txt")
        raise vlib.Inconclusive("SELF-TEST of the round-level trace specification failed: " + "; ".join(bad[:4]))
    # (b) outcomes of the implementation-shaped TLA+ model of the code: monitor verdict must equal the model's, zero drift
    mf = ctx.path("modelrounds.ndjson")
    lines = []
    for i, o in enumerate(outs):
        lines += list(outcome_lines(20000 + i, o))
    ctx.write_ndjson(mf, lines)
    r2 = ctx.tlc("PlacementTrace", None, workers=1, env={"TRACE_FILE": mf}, cfg_text=tcfg(k_code), timeout=600)
    if not r2.records("END") or not r2.no_error or r2.records("OPENROUND"):
        ctx.save_debug(r2, "tlc_modelrounds.txt")
        raise vlib.Inconclusive("SELF-TEST: trace specification did not consume the model outcomes: %s" % vlib.tail(r2.out, 12))
    got2 = {}
    for v in r2.records("VIOL"):
        got2.setdefault(v[2], set()).add(v[1])
    nd = len(r2.records("DRIFT"))
    mism = 0
    for i, o in enumerate(outs):
        model_ok = bool(o[7]) and not o[5]
        if model_ok != (not got2.get(20000 + i)):
            mism += 1
    if nd or mism:
        ctx.save_debug(r2, "tlc_modelrounds.txt")
        raise vlib.Inconclusive("SELF-TEST: trace specification disagrees with the round model on its own outcomes (drift=%d, verdict mismatches=%d)"
                                % (nd, mism))
    ctx.extra["round_trace_spec_selftest"] = {
        "note": "synthetic - no evidence about the real scheduler",
        "toy_rounds": len(expect), "toy_rounds_violating": sum(1 for e in expect if e["expect"]),
        "model_outcomes": len(outs), "model_outcomes_violating": sum(1 for i in range(len(outs)) if got2.get(20000 + i))}
    ctx.log("self-test: %d toy rounds, %d model outcomes (%d violating) - trace specification agrees" % (
        len(expect), len(outs), ctx.extra["round_trace_spec_selftest"]["model_outcomes_violating"]))
