"""X01 - beyond the listed properties: the kill acknowledgement protocol (common/utils/safeacks).

Model: spec/KillAck.tla (exhaustive, TLC; safety under the documented usage "N senders, one receiver per registration",
liveness of senders of a consumed registration under weak fairness).  Binding: invocation sequences generated from the
model (spec/KillAckGen.tla, tlc -simulate) run on the real safeacks.SafeAcks, every operation in its own goroutine
(harness/cmd/killack); the recorded invocations / completions / blocked sets are validated by TLC against
spec/KillAckTrace.tla, whose silent steps are the model's internal actions: a run is accepted when SOME behaviour of
the model explains every recorded result.

Not a listed property: not registered in MANIFEST.json; evidence goes to evidence/extra/X01.json."""
import json

import vlib

LEVEL = "model_checking"


def cfg_model(keys, threads, maxgen, one=True, fair=False, invs="TypeOK AtMostOneAck NoPanic ReceiveDeletesOwn SenderNilMeansDelivered"):
    return """SPECIFICATION %s
CONSTANTS
  Keys = %s
  Threads = %s
  MaxGen = %d
  OneReceiver = %s
INVARIANTS %s
%s
CHECK_DEADLOCK FALSE
""" % ("FairSpec" if fair else "Spec", keys, threads, maxgen, "TRUE" if one else "FALSE", invs,
       "PROPERTY SendersOfConsumedReturn" if fair else "")


def cfg_gen(one):
    return """SPECIFICATION GenSpec
CONSTANTS
  Keys = {"k1", "k2"}
  Threads = {"t1", "t2", "t3", "t4"}
  MaxGen = 3
  OneReceiver = %s
CHECK_DEADLOCK FALSE
""" % ("TRUE" if one else "FALSE")


def cfg_trace(one):
    return """SPECIFICATION TraceSpec
CONSTANTS
  Keys = {"k1", "k2"}
  Threads = {"t1", "t2", "t3", "t4"}
  MaxGen = 1000000
  OneReceiver = %s
INVARIANT PrintEnd
CONSTRAINT Furthest
POSTCONDITION Post
CHECK_DEADLOCK FALSE
""" % ("TRUE" if one else "FALSE")


OPS = {"G_Register": "register", "G_Expects": "expects", "G_Send": "send", "G_Recv": "recv"}


def beh_to_scenario(sid, beh, origin):
    steps = []
    for (name, args, _st) in beh[1:]:
        if name in OPS:
            steps.append({"t": args[0].strip('"'), "op": OPS[name], "k": args[1].strip('"')})
    return {"id": sid, "steps": steps, "origin": origin}


def validate(ctx, lines, one, what):
    """Returns the scenario ids no behaviour of the model explains."""
    bad = []
    for _round in range(6):
        f = ctx.path("trace_%s_%d.ndjson" % (what, _round))
        ctx.write_ndjson(f, lines)
        r = ctx.tlc("KillAckTrace", None, workers=1, env={"TRACE_FILE": f}, cfg_text=cfg_trace(one), timeout=1200)
        ctx.states += r.distinct
        ctx.transitions += r.generated
        if r.records("END"):
            return bad
        fur = r.records("FURTHEST")
        if not fur or r.crashed:
            ctx.save_debug(r, "tlc_trace_KillAck.txt")
            raise vlib.Inconclusive("trace validation of KillAck failed: " + vlib.tail(r.out, 20))
        lno = int(fur[-1][1])
        if not (1 <= lno <= len(lines)):
            raise vlib.Inconclusive("trace validation of KillAck: furthest line %d out of range" % lno)
        scn = lines[lno - 1].get("scn")
        bad.append((scn, lines[lno - 1]))
        lines = [x for x in lines if x.get("scn") != scn]
    return bad      # (at least) six recorded runs no behaviour of the model explains


def run(ctx):
    quick = ctx.tier == "quick"
    ctx.assumptions += [
        "documented usage: N senders and ONE receiver per registration (what KillTasks does: it registers and receives under its own "
        "selection of task ids); the two-receiver family is explored separately and only reported",
        "an operation that has not returned after the grace period (150 ms) is called blocked by the driver",
    ]
    ctx.rule = ("scenario = the invocation sequence of a behaviour of KillAckGen (TLC -simulate, seeded), run on the real SafeAcks with one "
                "goroutine per operation; non-trivial = contains a send and a recv on the same key; distinct = distinct invocation sequences")
    # 1. exhaustive
    ctx.model_check("KillAck", None, cfg_text=cfg_model('{"k1"}', '{"t1", "t2", "t3"}', 2, fair=True))
    if quick:
        ctx.model_check("KillAck", None, cfg_text=cfg_model('{"k1", "k2"}', '{"t1", "t2"}', 2))
    else:
        ctx.model_check("KillAck", None, cfg_text=cfg_model('{"k1", "k2"}', '{"t1", "t2", "t3"}', 2), timeout=3000)
        ctx.model_check("KillAck", None, cfg_text=cfg_model('{"k1"}', '{"t1", "t2", "t3", "t4"}', 2, fair=True), timeout=3000)
    # the assumption matters: without it the model double-closes the stop channel
    r2 = ctx.model_check("KillAck", None, cfg_text=cfg_model('{"k1"}', '{"t1", "t2", "t3"}', 1, one=False, invs="NoPanic"))
    panic_scn = None
    if r2.violated:
        cex = r2.counterexample()
        steps = []
        for (name, args, _st) in cex[1:]:
            if name in ("Register", "Expects"):
                steps.append({"t": args[0].strip('"'), "op": name.lower(), "k": args[1].strip('"')})
            elif name == "Fetch":
                steps.append({"t": args[0].strip('"'), "op": args[2].strip('"'), "k": args[1].strip('"')})
        panic_scn = {"id": 1, "steps": steps, "origin": "model-counterexample:NoPanic(two receivers)"}

    # 2. generate
    scenarios = []
    sid = 10
    n = 300 if quick else 4000
    for b in ctx.simulate("KillAckGen", None, n, 40, cfg_text=cfg_gen(True), seed=ctx.seed * 104729 + 3):
        sid += 1
        scenarios.append(beh_to_scenario(sid, b, "generated"))
    two = []
    for b in ctx.simulate("KillAckGen", None, n // 6, 40, cfg_text=cfg_gen(False), seed=ctx.seed * 104729 + 4):
        sid += 1
        two.append(beh_to_scenario(sid, b, "generated-two-receivers"))
    if panic_scn:
        two.append(panic_scn)

    # 3. run on the real code
    binp = ctx.build("killack")

    def execute(scns, name):
        sf, tf = ctx.path("scn_%s.ndjson" % name), ctx.path("run_%s.ndjson" % name)
        ctx.write_ndjson(sf, scns)
        out = ctx.run([binp, "-scenarios", sf, "-trace", tf], timeout=3000)
        ctx.log("%s: %s" % (name, out.strip()))
        return ctx.read_ndjson(tf)

    lines = execute(scenarios, "one")
    lines2 = execute(two, "two")
    for s in scenarios + two:
        ops = {(st["op"], st["k"]) for st in s["steps"]}
        ctx.count_case(json.dumps(s["steps"]), nontrivial=any(("send", k) in ops and ("recv", k) in ops for k in ("k1", "k2")))
    ctx.sample({"scenario": scenarios[0], "trace": [x for x in lines if x.get("scn") == scenarios[0]["id"]][:12]})
    ctx.traces = len(scenarios) + len(two)
    ctx.exhaustive = False

    # 4. validate
    by_id = {s["id"]: s for s in scenarios + two}
    for (scn, line) in validate(ctx, lines, True, "one"):
        ctx.add_violation({"inv": "Conformance", "scn": scn, "line": line.get("seq"), "event": line.get("ev"), "origin": "generated"},
                          replay_obj={"scenario": by_id.get(scn), "trace": [x for x in lines if x.get("scn") == scn]})
    for (scn, line) in validate(ctx, lines2, False, "two"):
        ctx.add_violation({"inv": "Conformance", "scn": scn, "line": line.get("seq"), "event": line.get("ev"), "origin": "two-receivers"},
                          replay_obj={"scenario": by_id.get(scn), "trace": [x for x in lines2 if x.get("scn") == scn]})
    panics = sorted({x["scn"] for x in lines2 if x.get("ev") == "Done" and x.get("res") == "panic"})
    blocked = sum(1 for x in lines + lines2 if x.get("ev") == "End" and x.get("blocked"))
    ctx.extra["runs_ending_with_blocked_operations"] = blocked
    ctx.extra["two_receiver_runs_that_panicked"] = len(panics)
    if r2.violated:
        ctx.observations.append(
            "SafeAcks with two receivers on one registration (outside its documented usage): the model double-closes the stop channel "
            "(NoPanic violated); on the real code %d of %d such runs panicked with 'close of closed channel' (the sender's select takes the "
            "ack branch at random when stop is closed as well)" % (len(panics), len(two)))
    if blocked:
        ctx.observations.append(
            "%d runs end with operations blocked for ever (a sender or receiver of a registration whose counterpart never comes): accepted "
            "by the model; in the core a status update for a task whose registration KillTasks never receives parks its goroutine" % blocked)


def replay(ctx, obj):
    s = obj["scenario"]
    binp = ctx.build("killack")
    sf, tf = ctx.path("scn.ndjson"), ctx.path("run.ndjson")
    ctx.write_ndjson(sf, [s])
    ctx.run([binp, "-scenarios", sf, "-trace", tf], timeout=600)
    lines = ctx.read_ndjson(tf)
    for (scn, line) in validate(ctx, lines, s.get("origin", "").find("two") < 0, "replay"):
        ctx.add_violation({"inv": "Conformance", "scn": scn, "line": line.get("seq"), "event": line.get("ev")},
                          replay_obj={"scenario": s, "trace": lines})
