"""Shared machinery of C08 / C09 / C10 (hooks inside environment transitions).

Model: spec/EnvHooks.tla (an interpreter of handleHooks and the four FSM callbacks) checked by TLC over
a catalogue of hook configurations; spec/EnvHooksGen.tla prints every configuration with the results the
model predicts; each configuration is rendered to a workflow with verif.Probe call hooks, run on the real
core (coresim) and the recorded run is validated by TLC against spec/EnvHooksTrace.tla."""
import json
import random
import re

import coresim as cs
import vlib

DEV = "await-weight-not-scheduled"
INVS = {
    "C08": {"AtTrigger", "Ordered", "Barrier", "OnceOrCancelled"},
    "C09": {"CancelBefore", "KeepAfter", "NonCriticalSilent", "OnlyCriticalFailuresAffect", "CriticalFailureReported", "Returns"},
    "C10": {"SetBetween", "Stable", "Gone", "StampOrder", "NoLeak", "EndExactlyOnce", "SetOnce"},
}
TEV = {"START_ACTIVITY": "START", "STOP_ACTIVITY": "STOP", "RESET": "RESET", "CONFIGURE": "CONFIGURE"}
TX = {v: k for k, v in TEV.items()}
MODEL_INVS = "TypeOK AtTrigger Ordered Barrier OnceOrCancelled CancelBefore KeepAfter NonCriticalSilent StampOrder SetBetween"


def consts(ctx, hooks, configs):
    return ("CONSTANTS\n  Hooks = %s\n  Configs <- %s\n  Code_AwaitWeightNotScheduled = %s\n"
            % (hooks, configs, "TRUE" if ctx.deviation_open(DEV) else "FALSE"))


def expr(m, w):
    return "%s%+d" % (m, w)


# how a hook TASK can end (C09: error, non-zero exit, involuntary termination, timeout); "ok" = exit 0, voluntary
TASK_ENDS = {"ok": {"hook_exit": 0, "hook_voluntary": True}, "exit1": {"hook_exit": 1, "hook_voluntary": True},
             "signal": {"hook_exit": -1, "hook_voluntary": True}, "killed": {"hook_exit": 0, "hook_voluntary": False},
             "exit3killed": {"hook_exit": 3, "hook_voluntary": False}, "silent": {"hook_silent": True},
             # ends well, but so quickly that the executor reports the end before it has answered the trigger command
             "early": {"hook_exit": 0, "hook_voluntary": True, "hook_early": True}}


def scenario(sid, case, gate=None, timeout="5s", gap_ms=0, pad=False, taskhook=None, nonumber=False, blank=None, both=False,
             sametext=False, destroy_during=False, task_ids=("h1",), late_then=None, lowercase=False, class_ttl=False):
    # lowercase: the moment names of the hooks are spelled in lower case (they then name no moment of the state machine: the
    # hooks are never started); class_ttl: the core forgets task classes after one second unless they are in use - a second
    # environment with another workflow is created two seconds after the first (every creation sweeps the class cache)
    # task_ids: which hooks are hook TASKS when taskhook is given; late_then = (late_ms, end): the hook task hangs the first
    # time it is triggered (the core's hook timeout decides), its process ends late_ms after the trigger, and the next time it
    # is triggered it ends as `end`
    # destroy_during (with gate): a forced DESTROY is requested while the gated START is in progress; it waits for the
    # transition to end and then tears down what the transition left (a RUNNING environment: the run must be ended)
    # blank: "empty" / "absent" - how an await that equals the trigger is spelled (default: written out)
    """pad: weights spelled with leading zeros (+005); taskhook = (end_if_fails, end_if_ok): hook h1 is a hook TASK, not a call."""
    cls = "ehs%dt1" % sid
    roles = cs.role_task("t1", cls)
    hooks = {}
    files_extra, scripts = {}, []
    ex = (lambda m, w: "%s%+04d" % (m, w)) if pad else expr
    if lowercase:
        case = json.loads(json.dumps(case))
        for h in case["hooks"]:
            h["tm"], h["am"] = h["tm"].lower(), h["am"].lower()
    for h in sorted(case["hooks"], key=lambda x: x["id"]):
        if taskhook and (h["id"] in task_ids or both):
            hcls = "ehs%d%s" % (sid, h["id"])
            files_extra["tasks/%s.yaml" % hcls] = cs.task_class(hcls, mode="hook")
            roles += cs.role_task(h["id"], hcls, critical=h["crit"], trigger=ex(h["tm"], h["tw"]), await_=ex(h["am"], h["aw"]),
                                  timeout="1s" if (taskhook[0] == "silent" or late_then) else timeout)
            if late_then and h["fails"]:
                scripts.append({"class": hcls, "hook_silent": True, "hook_late_ms": late_then[0], "times": 1})
                scripts.append(dict({"class": hcls}, **TASK_ENDS[late_then[1]]))
            else:
                scripts.append(dict({"class": hcls}, **TASK_ENDS[taskhook[0] if h["fails"] else taskhook[1]]))
            continue
        aw = ex(h["am"], h["aw"])
        if blank and (h["tm"], h["tw"]) == (h["am"], h["aw"]):
            aw = "" if blank == "empty" else None
        roles += cs.role_call(h["id"], h["id"], ex(h["tm"], h["tw"]), aw, critical=h["crit"], timeout=timeout)
        b = {"outcome": "fail" if h["fails"] else "ok"}
        if h.get("once"):
            b["fail_times"] = 1
        if gate == h["id"]:
            b["gate"] = "G"
        if sametext:    # every failing hook fails with the same words (as hooks that share a cause do)
            b["text"] = "scripted failure (the same text for every hook)"
        hooks[h["id"]] = b
    if taskhook and both:
        # company: ten more hook tasks at the same step, non-critical, hanging like the others - their timeouts fire with the
        # same deadline, while the collector is busy with the first ones (they are not part of the model: non-critical, silent)
        h1 = next(h for h in case["hooks"] if h["id"] == "h1")
        for k in range(10):
            xcls = "ehs%dx%d" % (sid, k)
            files_extra["tasks/%s.yaml" % xcls] = cs.task_class(xcls, mode="hook")
            roles += cs.role_task("x%d" % k, xcls, critical=False, trigger=ex(h1["tm"], h1["tw"]), await_=ex(h1["am"], h1["aw"]), timeout="1s")
            scripts.append({"class": xcls, "hook_silent": True})
    wf = "ehwf%d" % sid
    steps = [{"do": "create", "env": "e1", "wf": wf}]
    core = {}
    if class_ttl:
        cls2, wf2 = "ehs%dz" % sid, "ehwf%dz" % sid
        files_extra["tasks/%s.yaml" % cls2] = cs.task_class(cls2)
        files_extra["workflows/%s.yaml" % wf2] = cs.workflow(wf2, cs.role_task("z1", cls2))
        core = {"flags": ["--taskClassCacheTTL=1s"]}
        steps += [{"do": "sleep", "ms": 2000}, {"do": "create", "env": "e2", "wf": wf2}]
    if nonumber:
        # the shared run counter cannot be advanced: the START must fail before a run exists (no number, no stamps, no end-of-run record)
        steps.append({"do": "kvfault", "kind": "put500"})
    for i, ev in enumerate(case["plan"], start=1):
        if i in case["bodyfails"]:
            steps.append({"do": "script", "rule": {"class": cls, "event": TEV[ev], "outcome": "err_src", "times": 1}})
        if i in case.get("quiet", []):
            # requested from inside the core: the task announces END_OF_STREAM, handleDeviceEvent tries STOP_ACTIVITY and only
            # logs a failure; the end of that attempt is the release of the transition lock
            steps += [{"do": "gate", "point": "env.lock.release", "match": {"what": ev}},
                      {"do": "fault", "kind": "END_OF_STREAM", "class": cls},
                      {"do": "waitgate", "point": "env.lock.release", "timeout_ms": 20000},
                      {"do": "ungate", "point": "env.lock.release"}, {"do": "settle", "ms": 20}]
            if late_then:
                steps.append({"do": "sleep", "ms": late_then[0]})     # the hung hook's process ends meanwhile
            continue
        if gate and destroy_during:
            steps += [{"do": "control", "env": "e1", "op": ev, "caller": "A%d" % i},
                      {"do": "waitgate", "point": "probe:G", "timeout_ms": 2000},
                      {"do": "destroy", "env": "e1", "force": True, "caller": "D"}, {"do": "settle", "ms": 80},
                      {"do": "ungate", "point": "probe:G"}, {"do": "await", "caller": "A%d" % i}, {"do": "await", "caller": "D"}]
        elif gate:
            # hooks of one (moment, weight) are started together: while the gated one is held its companion runs
            together = []
            hs = {h["id"]: h for h in case["hooks"]}
            # (only where the model lets the transition reach that moment: nothing fails before it)
            if gate == "h1" and "h2" in hs and not case["bodyfails"] and not any(h["fails"] for h in case["hooks"]) \
                    and (hs["h1"]["tm"], hs["h1"]["tw"]) == (hs["h2"]["tm"], hs["h2"]["tw"]) \
                    and ev == {"START_ACTIVITY": "START_ACTIVITY", "STOP_ACTIVITY": "STOP_ACTIVITY"}.get(hs["h1"]["tm"].split("_", 1)[1] if hs["h1"]["tm"].startswith(("before_", "after_")) else "", "START_ACTIVITY" if hs["h1"]["tm"] in ("leave_CONFIGURED", "enter_RUNNING") else "STOP_ACTIVITY"):
                together = [{"do": "waithook", "hook": "h2", "timeout_ms": 3000}]
            steps += [{"do": "control", "env": "e1", "op": ev, "caller": "A%d" % i},
                      {"do": "waitgate", "point": "probe:G", "timeout_ms": 800}] + together + [{"do": "settle", "ms": 60},
                      {"do": "ungate", "point": "probe:G"}, {"do": "await", "caller": "A%d" % i}]
        else:
            steps.append({"do": "control", "env": "e1", "op": ev})
        if gap_ms:
            steps.append({"do": "sleep", "ms": gap_ms})   # lets a declared call timeout elapse before the next request
    if nonumber:
        steps.append({"do": "kvfault", "kind": "off"})
    if class_ttl:
        steps.append({"do": "destroy", "env": "e2", "force": True})
    if destroy_during:
        steps.append({"do": "settle", "ms": 20})
    else:
        steps += [{"do": "destroy", "env": "e1", "force": True}, {"do": "settle", "ms": 20}]
    if not gate and not gap_ms:
        steps.append({"do": "pendingcalls"})
    pred = case["pred"]
    if nonumber:
        pred = [{"ev": ev, "ok": False, "st": "ERROR"} for ev in case["plan"]]
    for h in case["hooks"]:
        h.setdefault("once", False)
    model = {"hooks": sorted(case["hooks"], key=lambda x: x["id"]), "plan": case["plan"], "bodyfails": case["bodyfails"], "quiet": case.get("quiet", []),
             "pred": pred, "gate": gate or "", "pad": pad, "taskhook": list(taskhook) if taskhook else [], "nonumber": nonumber}
    files = {"tasks/%s.yaml" % cls: cs.task_class(cls), "workflows/%s.yaml" % wf: cs.workflow(wf, roles)}
    files.update(files_extra)
    fam = "EnvHooks" + ("-gated" if gate else "") + ("-slow" if gap_ms else "") + ("-padded" if pad else "") + ("-taskhook" if taskhook else "")
    return {"id": sid, "family": fam, "agents": cs.DEFAULT_AGENTS, "files": files,
            "core": core, "scripts": scripts, "hooks": hooks, "steps": steps, "model": model}


def project(lines):
    """Project raw coresim lines to the vocabulary of EnvHooksTrace (rank-compressing timestamps per scenario)."""
    by_scn = {}
    for ln in lines:
        by_scn.setdefault(ln.get("scn", -1), []).append(ln)
    out = []
    for scn, ls in by_scn.items():
        if scn < 0:
            continue
        stamps = set()
        for ln in ls:
            if ln["ev"] == "HookStart":
                for f in ("sosor", "eosor", "soeor", "eoeor"):
                    if ln.get(f):
                        stamps.add(int(ln[f]))
        rank = {v: i + 1 for i, v in enumerate(sorted(stamps))}
        for ln in ls:
            ev = ln["ev"]
            if ev == "Reset":
                m = ln["model"]
                out.append({"ev": "Reset", "scn": scn, "model": {"hooks": m["hooks"], "pred": m["pred"]}})
            elif ev == "Hook" and ln.get("point") in ("env.lock.acquired", "env.lock.release") and ln.get("env") == "e1":
                out.append({"ev": "Acq" if ln["point"].endswith("acquired") else "Rel", "scn": scn, "what": ln["what"], "st": ln["st"]})
            elif ev == "Hook" and ln.get("point") in ("env.hooks.start", "env.hooks.awaited") and ln.get("env") == "e1":
                out.append({"ev": "HStart" if ln["point"].endswith("start") else "HAwaited", "scn": scn, "m": ln["trigger"], "w": ln["weight"],
                            "kind": "calls", "calls": [c.rsplit(".", 1)[-1] for c in ln["calls"]], "errors": ln.get("errors", 0)})
            elif ev == "EnvEv" and ln.get("env") == "e1" and ln["msg"] in ("transition step starting", "transition step finished"):
                step = ln["step"]
                k = step.split("_", 1)[0]
                out.append({"ev": "Step", "scn": scn, "tx": ln["tx"], "m": step, "k": k,
                            "phase": "start" if ln["msg"].endswith("starting") else "end", "err": ln["err"],
                            "named": sorted(set(re.findall(r"hook (h[0-9]+)", ln.get("errtext", ""))))})
            elif ev == "HookSeen":
                out.append({"ev": "HookSeen", "scn": scn, "hook": ln["hook"], "ok": bool(ln["ok"])})
            elif ev == "HookStart" and ln.get("env") == "e1":
                mt = re.match(r"(.*?)([+-][0-9]+)?$", ln["trig"])
                g = lambda f: rank[int(ln[f])] if ln.get(f) else 0
                out.append({"ev": "HS", "scn": scn, "hook": ln["hook"], "m": mt.group(1), "w": int(mt.group(2) or 0),
                            "rn": int(ln["rn"]) if ln.get("rn") else 0, "sosor": g("sosor"), "eosor": g("eosor"), "soeor": g("soeor"),
                            "eoeor": g("eoeor")})
            elif ev == "Hook" and ln.get("point") in ("env.hooks.tasks.start", "env.hooks.tasks.done") and ln.get("env") == "e1":
                # the task hooks of a (trigger, weight) step: same vocabulary as the calls started / awaited there
                out.append({"ev": "HStart" if ln["point"].endswith("start") else "HAwaited", "scn": scn, "m": ln["trigger"], "w": ln["weight"],
                            "kind": "tasks", "calls": [c.rsplit(".", 1)[-1] for c in ln["tasks"]], "errors": ln.get("errors", 0)})
            elif ev == "MHookDone" and ln.get("env") == "e1" and re.search(r"h[0-9]+$", ln.get("class", "")):
                # how the hook task ended, judged as the property words it: exit 0 and voluntary, else a failure
                out.append({"ev": "HE", "scn": scn, "hook": re.search(r"(h[0-9]+)$", ln["class"]).group(1),
                            "ok": ln["exit"] == 0 and bool(ln["voluntary"])})
            elif ev == "HookEnd" and ln.get("env") == "e1":
                out.append({"ev": "HE", "scn": scn, "hook": ln["hook"], "ok": ln["ok"]})
            elif ev == "MMessage" and ln.get("env") == "e1":
                out.append({"ev": "Cmd", "scn": scn, "tx": TX.get(ln["event"], ln["event"]), "held": bool(ln.get("held_soeor"))})
            elif ev == "RunEv" and ln.get("env") == "e1":
                out.append({"ev": "Run", "scn": scn, "rn": ln["rn"], "tx": ln["tx"], "status": ln["status"]})
            elif ev == "ApiReply" and ln.get("call") == "control":
                out.append({"ev": "Reply", "scn": scn, "op": ln["op"], "code": ln["code"], "st": ln.get("st", ""), "rn": ln.get("rn", 0),
                            "named": sorted(set(re.findall(r"hook (h[0-9]+)", ln.get("errtext", ""))))})
            elif ev == "Pending":
                out.append({"ev": "Pending", "scn": scn, "n": ln["n"]})
            elif ev == "End":
                out.append({"ev": "End", "scn": scn})
    return out


def run_family(ctx, pid):
    quick = ctx.tier == "quick"
    rng = random.Random(ctx.seed)
    ctx.assumptions += ["hooks are integration call hooks (verif.Probe) declared in the workflow; task hooks are exercised by the "
                        "lifecycle checks; timestamps are compared after an order-preserving rank compression",
                        "Mesos/executors/Consul are simulated; one critical basic task per environment"]
    ctx.rule = ("case = hook configuration (trigger/await moment and weight, criticality, failing or not) x request plan x failing "
                "transition body, enumerated by TLC from the catalogue in spec/EnvHooksMC.tla with the model's predicted results; "
                "plus gated variants in which a hook's call is held while the state machine proceeds; non-trivial = a hook fails, "
                "awaits elsewhere than it triggers, or the body fails")
    # 1. exhaustive model check of the catalogue
    ctx.model_check("EnvHooksMC", None, cfg_text="SPECIFICATION Spec\n" + consts(ctx, '{"h1", "h2"}', "CfgAll") +
                    "INVARIANTS " + MODEL_INVS + "\nCHECK_DEADLOCK FALSE\n")
    # 2. cases + predictions from TLC
    r = ctx.tlc("EnvHooksGen", None, workers=1, cfg_text="SPECIFICATION GenSpec\n" + consts(ctx, '{"h1", "h2"}', "CfgAll") +
                "INVARIANT PrintCase\nCHECK_DEADLOCK FALSE\n")
    cases = [json.loads(c[1]) for c in r.records("CASE")]
    if not cases:
        ctx.save_debug(r, "gen.txt")
        raise vlib.Inconclusive("no cases generated: " + vlib.tail(r.out))
    # a small catalogue with THREE hooks (Cfg8), model-checked and predicted on its own
    ctx.model_check("EnvHooksMC", None, cfg_text="SPECIFICATION Spec\n" + consts(ctx, '{"h1", "h2", "h3"}', "Cfg8") +
                    "INVARIANTS " + MODEL_INVS + "\nCHECK_DEADLOCK FALSE\n")
    r3 = ctx.tlc("EnvHooksGen", None, workers=1, cfg_text="SPECIFICATION GenSpec\n" + consts(ctx, '{"h1", "h2", "h3"}', "Cfg8") +
                 "INVARIANT PrintCase\nCHECK_DEADLOCK FALSE\n")
    three = [json.loads(c[1]) for c in r3.records("CASE")]
    if not three:
        raise vlib.Inconclusive("no three-hook cases generated: " + vlib.tail(r3.out))
    rng.shuffle(cases)
    # requests from inside the core (catalogues Cfg6, Cfg7) form a family of their own
    def watched_stop(c):
        h1, h2 = (next(h for h in c["hooks"] if h["id"] == i) for i in ("h1", "h2"))
        return (h1["tm"], h1["tw"], h2["tm"], h2["tw"]) == ("after_STOP_ACTIVITY", -1, "after_STOP_ACTIVITY", 0)
    def enter_halves(c):
        h1, h2 = (next(h for h in c["hooks"] if h["id"] == i) for i in ("h1", "h2"))
        return (h1["tm"], h1["tw"], h2["am"], h2["aw"]) == ("enter_RUNNING", -1, "enter_RUNNING", 0)
    def neg_await(c):
        h1 = next(h for h in c["hooks"] if h["id"] == "h1")
        return (h1["tm"], h1["tw"]) == ("before_START_ACTIVITY", 0) and h1["aw"] == -1 and h1["am"] != h1["tm"]
    eos = [c for c in cases if c.get("quiet") or watched_stop(c) or enter_halves(c) or neg_await(c)]
    cases = [c for c in cases if not (c.get("quiet") or watched_stop(c) or enter_halves(c) or neg_await(c))]
    interesting = [c for c in cases if any(h["fails"] or (h["tm"], h["tw"]) != (h["am"], h["aw"]) for h in c["hooks"]) or c["bodyfails"]]
    # the "two hooks meeting in one moment" catalogue (Cfg3Valid: h2 may be non-critical) is replayed completely
    def is_meet(c):
        h2 = next(h for h in c["hooks"] if h["id"] == "h2")
        return h2["tm"] in ("leave_CONFIGURED", "enter_RUNNING") and c["plan"] == ["START_ACTIVITY", "STOP_ACTIVITY"] and not c["bodyfails"]
    meet = [c for c in cases if is_meet(c)]
    rest = [c for c in interesting if not is_meet(c)]
    # a STOP that fails - through a critical hook at one of its moments or through its task commands - is followed by the API's
    # GO_ERROR: the end of the run is recorded by two transitions in a row (C10: each stamp once; C09: what is reported)
    STOPM = ("before_STOP_ACTIVITY", "leave_RUNNING", "after_STOP_ACTIVITY")

    def is_failstop(c):
        return c["plan"] == ["START_ACTIVITY", "STOP_ACTIVITY"] and 1 not in c["bodyfails"] and (
            2 in c["bodyfails"] or any(h["fails"] and h["crit"] and h["tm"] in STOPM and (h["tm"], h["tw"]) == (h["am"], h["aw"])
                                       for h in c["hooks"]))
    failstop = [c for c in rest if is_failstop(c)]
    rest = [c for c in rest if not is_failstop(c)]
    # one failing hook awaited where it is triggered, at every trigger point of the catalogue, critical and not:
    # the base line of C09 at every moment and weight sign
    single, seen_pts = [], set()
    for c in rest:
        h1 = next(h for h in c["hooks"] if h["id"] == "h1")
        h2 = next(h for h in c["hooks"] if h["id"] == "h2")
        key = (h1["tm"], h1["tw"], h1["crit"])
        if (h1["fails"] and not h2["fails"] and (h1["tm"], h1["tw"]) == (h1["am"], h1["aw"]) and not c["bodyfails"]
                and c["plan"] == ["START_ACTIVITY", "STOP_ACTIVITY"] and key not in seen_pts):
            seen_pts.add(key)
            single.append(c)
    rest = [c for c in rest if c not in single]
    # the same points with a hook that does not fail (for the task-hook family: a hook task that ends well)
    single_ok, seen_ok = [], set()
    for c in cases:
        h1 = next(h for h in c["hooks"] if h["id"] == "h1")
        h2 = next(h for h in c["hooks"] if h["id"] == "h2")
        key = (h1["tm"], h1["tw"], h1["crit"])
        if (not h1["fails"] and not h2["fails"] and (h1["tm"], h1["tw"]) == (h1["am"], h1["aw"]) and not c["bodyfails"]
                and c["plan"] == ["START_ACTIVITY", "STOP_ACTIVITY"] and key not in seen_ok):
            seen_ok.add(key)
            single_ok.append(c)
    second_run = [c for c in cases if len(c["plan"]) == 3]
    plain = rest[:(70 if quick else 600)] + single + failstop[:(60 if quick else 600)] + second_run + meet
    # calls whose await point is reached long after their declared timeout
    slow = [c for c in rest if any(h["id"] == "h1" and h["tm"].endswith("START_ACTIVITY") and h["am"] == "after_STOP_ACTIVITY" for h in c["hooks"])
            and c["plan"] == ["START_ACTIVITY", "STOP_ACTIVITY"] and not c["bodyfails"]][:(4 if quick else 16)]
    gated = [c for c in interesting if any(h["id"] == "h1" and (h["tm"], h["tw"]) != (h["am"], h["aw"]) for h in c["hooks"])]
    # the schedule-sensitive family: same moment, later weight
    samemom = [c for c in gated if any(h["id"] == "h1" and h["tm"] == h["am"] for h in c["hooks"])]
    # ... and an await point that lies between two triggers of the moment (catalogue Cfg5): always replayed
    def between(c):
        h1, h2 = (next(h for h in c["hooks"] if h["id"] == i) for i in ("h1", "h2"))
        return h1["tm"] == h1["am"] == h2["tm"] and h1["tw"] < h1["aw"] < h2["tw"]
    # ... and two calls declared at one (moment, weight) in a run in which nothing fails ("started together"): always replayed
    def together(c):
        h1, h2 = (next(h for h in c["hooks"] if h["id"] == i) for i in ("h1", "h2"))
        return ((h1["tm"], h1["tw"]) == (h2["tm"], h2["tw"]) and (h1["tm"], h1["tw"]) != (h1["am"], h1["aw"])
                and not c["bodyfails"] and not any(h["fails"] for h in c["hooks"]) and len(c["plan"]) == 2)
    tog = [c for c in gated if together(c)][:(4 if quick else 16)]
    gated = tog + [c for c in samemom if between(c)] + [c for c in samemom if not between(c)][:(10 if quick else 60)] + gated[:(25 if quick else 200)]
    scenarios = []
    sid = 0
    for c in plain:
        sid += 1
        scenarios.append(scenario(sid, c))
    # weights spelled with leading zeros mean the same
    padded = single + meet[:(12 if quick else 80)]
    for c in padded:
        sid += 1
        scenarios.append(scenario(sid, c, pad=True))
    # hook h1 as a hook TASK, with every way a task can end badly (and the good end)
    ntask = 0
    for c in single:
        for end in (["exit1", "signal", "killed"] if quick else ["exit1", "signal", "killed", "exit3killed"]):
            sid += 1
            ntask += 1
            scenarios.append(scenario(sid, c, taskhook=(end, "ok")))
    for c in single_ok:
        sid += 1
        ntask += 1
        scenarios.append(scenario(sid, c, taskhook=("exit1", "ok")))
    for c in [x for x in single if next(h for h in x["hooks"] if h["id"] == "h1")["tm"] in ("before_START_ACTIVITY", "enter_RUNNING")][:(2 if quick else 6)]:
        sid += 1
        ntask += 1
        scenarios.append(scenario(sid, c, taskhook=("silent", "ok")))
    # several hook tasks of one (trigger, weight) step that all hang: their timeouts fire together
    def same_point(c):
        h1, h2 = (next(h for h in c["hooks"] if h["id"] == i) for i in ("h1", "h2"))
        return ((h1["tm"], h1["tw"]) == (h2["tm"], h2["tw"]) == (h1["am"], h1["aw"]) == (h2["am"], h2["aw"]) and h1["fails"] and h2["fails"]
                and c["plan"] == ["START_ACTIVITY", "STOP_ACTIVITY"] and not c["bodyfails"])
    for c in [x for x in cases if same_point(x)][:(3 if quick else 8)]:
        sid += 1
        ntask += 1
        scenarios.append(scenario(sid, c, taskhook=("silent", "ok"), both=True))
    for c in gated:
        sid += 1
        scenarios.append(scenario(sid, c, gate="h1"))
    for c in slow:
        sid += 1
        scenarios.append(scenario(sid, c, timeout="200ms", gap_ms=450))
    by_id = {s["id"]: s for s in scenarios}
    for s in scenarios:
        ctx.count_case(json.dumps(s["model"], sort_keys=True), nontrivial=True)
    ctx.exhaustive = False
    # an await equal to the trigger may be left blank or out
    for c in single + single_ok[:(8 if quick else 40)]:
        for how in ("empty", "absent"):
            sid += 1
            scenarios.append(scenario(sid, c, blank=how))
    # a forced DESTROY requested while START_ACTIVITY is in progress (held in a hook): it is served after the transition
    ndd = 0
    for c in [x for x in cases if x["plan"] == ["START_ACTIVITY"] and not x["bodyfails"] and not any(h["fails"] for h in x["hooks"])
              and any(h["id"] == "h1" and h["tm"] in ("before_START_ACTIVITY", "leave_CONFIGURED") for h in x["hooks"])][:(6 if quick else 40)]:
        sid += 1
        ndd += 1
        scenarios.append(scenario(sid, c, gate="h1", destroy_during=True))
    for c in eos:
        sid += 1
        scenarios.append(scenario(sid, c))
    # ... with the cancelling hook as a hook TASK that hangs when the core asks from inside (hook timeout: STOP cancelled), whose
    # process ends a little later, and that exits 1 when the STOP is asked for again through the API
    for c in [x for x in eos if x.get("quiet") and not watched_stop(x) and not any(h["once"] for h in x["hooks"])
              and not any(h["fails"] for h in x["hooks"] if h["id"] == "h1")][:(3 if quick else 12)]:
        sid += 1
        ntask += 1
        scenarios.append(scenario(sid, c, taskhook=("exit1", "ok"), task_ids=("h2",), late_then=(1400, "exit1")))
    # moment names spelled in lower case name no moment: such hooks are never started (and nothing waits for them)
    for c in single_ok[:(4 if quick else 20)]:
        sid += 1
        scenarios.append(scenario(sid, c, lowercase=True))
    # a critical hook TASK that fails, in a core that forgets unused task classes after one second, after another workflow was
    # loaded (the class of a task that exists is in use)
    for c in [x for x in single if next(h for h in x["hooks"] if h["id"] == "h1")["crit"]][:(2 if quick else 8)]:
        sid += 1
        ntask += 1
        scenarios.append(scenario(sid, c, taskhook=("exit1", "ok"), class_ttl=True))
    # hook tasks that end well before the executor has answered the trigger command
    for c in single_ok[:(6 if quick else 30)]:
        sid += 1
        ntask += 1
        scenarios.append(scenario(sid, c, taskhook=("exit1", "early")))
    # a critical and a non-critical call failing at one weight, a third hook at a later weight (each case several times: which
    # of the two failures the core looks at last is a matter of map order)
    for c in three:
        for _k in range(4 if quick else 8):
            sid += 1
            scenarios.append(scenario(sid, c))
    # two hooks failing in one moment with the very same error text, one critical and one not
    nst = 0
    for c in [x for x in meet if all(h["fails"] for h in x["hooks"]) and len({h["crit"] for h in x["hooks"]}) == 2][:(40 if quick else 400)]:
        sid += 1
        nst += 1
        scenarios.append(scenario(sid, c, sametext=True))
    nn = 0
    for c in single_ok[:(6 if quick else 20)] + second_run[:2]:
        sid += 1
        nn += 1
        scenarios.append(scenario(sid, c, nonumber=True))
    ctx.log("cases from TLC: %d; scenarios: %d plain + %d gated + %d slow + %d padded + %d task-hook + %d without a run number + %d with one error text + %d destroyed during START + %d with a STOP from inside the core" % (len(cases) + len(eos), len(plain), len(gated), len(slow), len(padded), ntask, nn, nst, ndd, len(eos)))
    # 3. run on the real core, 4. validate
    judge(ctx, pid, scenarios, cs.run_scenarios(ctx, scenarios))


def replay_family(ctx, pid, obj):
    s = obj["scenario"]
    judge(ctx, pid, [s], cs.run_scenarios(ctx, [s]))


def judge(ctx, pid, scenarios, lines):
    by_id = {s["id"]: s for s in scenarios}
    proj = project(lines)
    tf = ctx.path("trace.ndjson")
    ctx.write_ndjson(tf, proj)
    ctx.sample({"model": scenarios[0]["model"]})
    ctx.sample({"trace_prefix": [x for x in proj if x["scn"] == scenarios[0]["id"]][:14]})
    # 4. validate
    viol, drift, tr = ctx.validate("EnvHooksTrace", None, tf, cfg_text="SPECIFICATION TraceSpec\nINVARIANT PrintEnd\nCHECK_DEADLOCK FALSE\n")
    ctx.traces = len(scenarios)
    ctx.extra["trace_lines"] = len(proj)
    for d in drift:
        ctx.drift.append({"scn": d[1], "line": d[2], "what": d[3], "model": by_id.get(d[1], {}).get("model")})
    seen = set()
    other = {}
    forced = {ln.get("scn") for ln in lines if ln.get("ev") == "Hook" and str(ln.get("point", "")).startswith("api.force")}
    # a scenario in which a call of the harness ran into its client-side deadline did not run as scripted (its trace is cut
    # short): it is not judged; too many of them make the run inconclusive
    cut = {ln.get("scn") for ln in lines if (ln.get("ev") == "ApiReply" and ln.get("timeout")) or (ln.get("ev") == "End" and ln.get("tainted"))
           or (ln.get("ev") == "Awaited" and ln.get("returned") is False)}
    cut.discard(None)
    if cut:
        ctx.extra["scenarios_not_judged_after_a_client_timeout"] = len(cut)
        if len(cut) > max(3, len(scenarios) // 25):
            raise vlib.Inconclusive("%d of %d scenarios ran into a client-side deadline" % (len(cut), len(scenarios)))
        viol = [v for v in viol if v[2] not in cut]
        ctx.drift = [d for d in ctx.drift if d.get("scn") not in cut]
        # ... unless it does so again on a core of its own: then the request really does not come back (C09: failing or timed-out
        # hooks are reported "without harming the core")
        if pid == "C09" and not getattr(ctx, "_rerun_cut", False):
            ctx._rerun_cut = True
            again = [dict(by_id[i], isolated=True) for i in sorted(cut) if i in by_id][:4]
            lines2 = cs.run_scenarios(ctx, again, timeout=600)
            cut2 = {ln.get("scn") for ln in lines2 if (ln.get("ev") == "ApiReply" and ln.get("timeout")) or (ln.get("ev") == "Awaited" and ln.get("returned") is False)}
            for i in sorted(cut2 - {None}):
                m = by_id[i].get("model", {})
                ctx.add_violation({"inv": "Returns", "scn": i, "gated": bool(m.get("gate")), "same_moment_later_weight": False, "h1": "",
                                   "detail": "a request did not return within the client's deadline, twice (second time on a core of its own)",
                                   "forced_error": False, "cls": "hang", "family": by_id[i].get("family", "")},
                                  replay_obj={"scenario": by_id[i], "trace": [l for l in lines2 if l.get("scn") == i]})
    for v in viol:
        inv, scn = v[1], v[2]
        if (inv, scn) in seen:
            continue
        seen.add((inv, scn))
        m = by_id.get(scn, {}).get("model", {})
        h1 = next((h for h in m.get("hooks", []) if h["id"] == "h1"), {})
        sig = {"inv": inv, "scn": scn, "gated": bool(m.get("gate")),
               "same_moment_later_weight": bool(h1) and h1["tm"] == h1["am"] and h1["aw"] > h1["tw"],
               "h1": "%s->%s" % (expr(h1.get("tm", ""), h1.get("tw", 0)), expr(h1.get("am", ""), h1.get("aw", 0))), "detail": str(v[4])[:160],
               # the state was written to ERROR without a transition (GO_ERROR itself was refused): recorded fact api.force.done
               "forced_error": scn in forced,
               # which clause of the invariant failed (known findings match on it, so that another failure in the same scenario shows)
               "cls": ("end-without-run" if "without a run" in str(v[4]) else
                       "end-count" if inv == "EndExactlyOnce" and isinstance(v[4], list) and len(v[4]) == 3 and all(isinstance(x, int) for x in v[4]) else "")}
        if inv in INVS[pid]:
            ctx.add_violation(sig, replay_obj={"scenario": by_id.get(scn), "trace": [l for l in lines if l.get("scn") == scn]})
        else:
            other[inv] = other.get(inv, 0) + 1
    if other:
        ctx.observations.append("violations of sibling properties seen in the shared scenarios (judged by their own checks): %s" % other)
