"""C10 - see envhooks_common.py (shared model spec/EnvHooks.tla, trace spec spec/EnvHooksTrace.tla)."""
import envhooks_common


def run(ctx):
    envhooks_common.run_family(ctx, "C10")


def replay(ctx, obj):
    envhooks_common.replay_family(ctx, "C10", obj)
