"""C13 - outbound channels connect to where the matching inbound channel was bound.

Model: spec/Channels.tla (functional: declarations + allocation -> what every task is told / rejection).
Cases (topology x bind/connect declarations at template / task-role / enclosing-role / root level) come
from spec/ChannelsGen.tla: a core catalogue enumerated exhaustively by TLC plus a seeded sample of the
full catalogue drawn by `tlc -simulate`.  Each case is rendered to a workflow + task templates, created
on the REAL core through the whole-core simulation (real gRPC API, simulated Mesos master/executors that
record the ports granted in ACCEPT and the chans.* arguments of the CONFIGURE command), and the recorded
runs are validated by TLC against spec/ChannelsTrace.tla (strict: told = Expected(...) computed by the
TLA+ definition; monitor: the property formulas on the recorded facts).
"""
import json
import os
import subprocess
from concurrent.futures import ThreadPoolExecutor

import coresim as cs
import vlib

DEVS = {"Code_ExplicitInboundAdvertisesDynamic": "explicit-inbound-target-not-advertised",
        "Code_SameTaskAliasLastWins": "same-task-alias-redefinition-accepted"}
INVS = "InvWellFormed InvExpectedIsFunction InvRejectedIffBad InvModelViolExplained"
FIELDS = ("address", "method", "transport")


def consts(ctx, size):
    lines = ["  Size = \"%s\"" % size] if size else []
    for c, key in DEVS.items():
        lines.append("  %s = %s" % (c, "TRUE" if ctx.deviation_open(key) else "FALSE"))
    return "\n".join(lines)


def cfg_gen(ctx, size, print_case):
    return "SPECIFICATION GenSpec\nCONSTANTS\n%s\nINVARIANTS %s%s\nCHECK_DEADLOCK FALSE\n" % (
        consts(ctx, size), INVS, " PrintCase" if print_case else "")


def cfg_trace(ctx):
    return "SPECIFICATION TraceSpec\nCONSTANTS\n%s\nINVARIANT PrintEnd\nCHECK_DEADLOCK FALSE\n" % consts(ctx, None)


# ---------------------------------------------------------------------------------------------
# rendering of a case (TLC value) to workflow + task template YAML: presentation only, every
# address string comes from the TLA+ vocabulary printed with the case

def role_path(wf, task):
    return "%s.%s" % (wf, task) if task == "t3" else "%s.grp.%s" % (wf, task)


def target_text(o, wf, vocab):
    if o["tk"] == "path":
        # a sibling referenced from a task role is written the way real workflows do it
        if o["lvl"].startswith("role:") and o["lvl"][5:] in ("t1", "t2") and o["tt"] != "t3":
            return "{{ Parent().Path }}.%s:%s" % (o["tt"], o["tn"])
        return "%s:%s" % (role_path(wf, o["tt"]), o["tn"])
    if o["tk"] == "alias":
        return "::" + o["ta"]
    return {"xtcp": vocab["xout_tcp"], "xipc": vocab["xout_ipc"], "xupper": vocab["xout_upper"]}[o["tk"]]


def bind_entry(d, vocab):
    e = {"name": d["name"], "type": "push", "addressing": d["addr"], "transport": d["tr"]}
    if d["alias"]:
        e["global"] = d["alias"]
    if d["xt"]:
        e["target"] = vocab["xin_tcp"] if d["xt"] == "tcp" else vocab["xin_ipc"]
    return e


def connect_entry(o, wf, vocab):
    return {"name": o["name"], "type": "pull", "target": target_text(o, wf, vocab), "transport": o["tr"]}


def yaml_block(key, entries, indent):
    if not entries:
        return ""
    sp = " " * indent
    y = "%s%s:\n" % (sp, key)
    for e in entries:
        first = True
        for k in ("name", "type", "addressing", "transport", "global", "target"):
            if k in e:
                y += "%s  %s %s: \"%s\"\n" % (sp, "-" if first else " ", k, e[k])
                first = False
    return y


def decls(case, wf, vocab, lvl, indent):
    b = [bind_entry(d, vocab) for d in case["inb"] if d["lvl"] == lvl]
    c = [connect_entry(o, wf, vocab) for o in case["outb"] if o["lvl"] == lvl]
    return yaml_block("bind", b, indent) + yaml_block("connect", c, indent)


def scenario(sid, case, vocab, origin):
    wf = "c13wf%d" % sid
    files = {}
    in_grp, at_root = "", ""
    for t in case["tasks"]:
        k = t["id"]
        cls = "c13s%d%s" % (sid, k)
        stale = ""
        for pr in case.get("props", []):
            if pr["task"] == k:
                # leftovers of a standalone configuration: hard-coded chans.* defaults in the template's properties
                stale += "".join("  chans.%s.0.%s: \"%s\"\n" % (pr["name"], f, vocab["stale_" + f]) for f in FIELDS)
        files["tasks/%s.yaml" % cls] = cs.task_class(
            cls, mode=t["mode"], extra=("properties:\n" + stale) if stale else "",
            bind=[bind_entry(d, vocab) for d in case["inb"] if d["lvl"] == "tmpl:" + k],
            connect=[connect_entry(o, wf, vocab) for o in case["outb"] if o["lvl"] == "tmpl:" + k])
        if t["grp"]:
            in_grp += cs.role_task(k, cls, host=t["host"], indent=6, extra=decls(case, wf, vocab, "role:" + k, 8))
        else:
            at_root += cs.role_task(k, cls, host=t["host"], indent=2, extra=decls(case, wf, vocab, "role:" + k, 4))
    y = "name: %s\n" % wf + decls(case, wf, vocab, "root", 0) + "roles:\n"
    if in_grp:
        y += "  - name: \"grp\"\n" + decls(case, wf, vocab, "grp", 4) + "    roles:\n" + in_grp
    y += at_root
    files["workflows/%s.yaml" % wf] = y
    return {"id": sid, "family": "C13", "agents": cs.DEFAULT_AGENTS, "files": files, "core": {}, "scripts": [], "hooks": {},
            "steps": [{"do": "create", "env": "e1", "wf": wf, "timeout_ms": 8000}], "model": case, "origin": origin}


AGENTS = cs.DEFAULT_AGENTS + [{"ID": "a3", "Host": "h3", "Attrs": {"machine_id": "h3"}, "CPUs": 16, "Mem": 16384,
                               "Ports": [[9000, 9200], [30000, 30200]]}]
IT_ALIAS = {"none": None, "it": "g{{ it }}", "fixed": "g"}


def scenario_iter(sid, case, vocab, itc, origin):
    """Binder/connector generated by a `for:` iterator (ChannelsGen: itc is the compact description, `case` its expansion
    computed by TLC - the model judges the expansion, this function only writes the template the way itc names it)."""
    wf = "c13wf%d" % sid
    files = {}
    for t in case["tasks"]:   # one class per expanded task (load: "<prefix>s{{ it }}"), so that a launched task names its iteration
        cls = "c13s%d%s" % (sid, t["id"])
        files["tasks/%s.yaml" % cls] = cs.task_class(cls, mode=t["mode"])
    host = "h1" if itc["hosts"] == "same" else "h{{ it }}"
    b = {"name": "a", "type": "push", "addressing": itc["addr"], "transport": itc["tr"]}
    if IT_ALIAS[itc["alias"]]:
        b["global"] = IT_ALIAS[itc["alias"]]
    target = {"sib": "{{ Parent().Path }}.snd:a", "sibup": "{{ Up(1).Path }}.snd:a", "abs1": "%s.it1.snd:a" % wf,
              "aliasit": "::g{{ it }}", "aliasfixed": "::g"}[itc["tgt"]]
    c = {"name": "x", "type": "pull", "target": target, "transport": "default"}
    roles = cs.role_task("snd", "c13s%ds{{ it }}" % sid, host=host, indent=6, extra=yaml_block("bind", [b], 8))
    roles += cs.role_task("rcv", "c13s%dr{{ it }}" % sid, host=host, indent=6, extra=yaml_block("connect", [c], 8))
    y = ("name: %s\nroles:\n  - name: \"it{{ it }}\"\n    for:\n      begin: 1\n      end: %d\n      var: it\n    roles:\n" % (wf, itc["n"])) + roles
    files["workflows/%s.yaml" % wf] = y
    return {"id": sid, "family": "C13", "agents": AGENTS, "files": files, "core": {}, "scripts": [], "hooks": {},
            "steps": [{"do": "create", "env": "e1", "wf": wf, "timeout_ms": 8000}], "model": case, "origin": origin, "iter": itc}


# ---------------------------------------------------------------------------------------------
# projection of the recorded lines (fixed, minimal parsing: key split + address scheme)

def split_chans(chans):
    """{'chans.<name>.<idx>.<field>': value} -> [{name, method, address, scheme, transport}] (socket 0)."""
    recs = {}
    for k, v in chans.items():
        p = k.split(".")
        if len(p) != 4 or p[0] != "chans" or p[2] != "0" or p[3] not in FIELDS:
            continue
        recs.setdefault(p[1], {"name": p[1], "address": "", "method": "", "transport": ""})[p[3]] = v
    out = []
    for n in sorted(recs):
        r = recs[n]
        r["scheme"] = r["address"].split("://")[0] if "://" in r["address"] else ""
        out.append(r)
    return out


def why(errtext):
    if "could not match target for outbound channel" in errtext:
        return "nomatch"
    if "illegal redefinition of global channel alias" in errtext:
        return "alias"
    return "other" if errtext else ""


def project(lines):
    hosts = {a["ID"]: a["Host"] for a in AGENTS}
    out = []
    done = set()
    for ln in lines:
        scn = ln.get("scn", -1)
        if scn < 0 or scn in done:
            continue
        prefix = "c13s%d" % scn
        ev = ln["ev"]
        if ev == "Reset":
            out.append({"ev": "Reset", "scn": scn, "model": ln["model"]})
        elif ev == "MAccept":
            g = [{"t": t["class"][len(prefix):], "host": hosts.get(t["agent"], t["agent"]), "ports": [int(p) for p in t["ports"]]}
                 for t in ln["tasks"] if t["class"].startswith(prefix)]
            out.append({"ev": "MAccept", "scn": scn, "grants": g})
        elif ev == "MMessage" and ln.get("event") == "CONFIGURE" and ln.get("class", "").startswith(prefix):
            out.append({"ev": "MMessage", "scn": scn, "t": ln["class"][len(prefix):], "chans": split_chans(ln.get("chans") or {})})
        elif ev == "ApiReply" and ln.get("call") == "create":
            out.append({"ev": "ApiReply", "scn": scn, "code": ln.get("code", ""), "why": why(ln.get("errtext", "")),
                        "timeout": bool(ln.get("timeout"))})
            done.add(scn)
    return out


# ---------------------------------------------------------------------------------------------
# running: small batches per core process; a scenario whose create call did not return in time (the
# core's teardown after a rejected CONFIGURE occasionally hangs - outside this property) taints its
# core: it and the scenarios skipped after it are run again in a fresh core (bounded rounds).

def run_batches(ctx, scenarios, procs=6, batch=60, rounds=6):
    binp = ctx.build("coresim")
    todo = list(scenarios)
    lines_by_scn = {}
    hung = 0
    for rnd in range(rounds):
        if not todo:
            break
        parts = [todo[i:i + batch] for i in range(0, len(todo), batch)]

        def run_part(ip):
            idx, part = ip
            d = os.path.dirname(ctx.path("cs_r%d_%d" % (rnd, idx), "x"))
            scn, trc = os.path.join(d, "scenarios.ndjson"), os.path.join(d, "trace.ndjson")
            ctx.write_ndjson(scn, part)
            try:
                p = subprocess.run([binp, "-mode", "run", "-work", d, "-scenarios", scn, "-trace", trc], stdout=subprocess.PIPE,
                                   stderr=subprocess.STDOUT, text=True, timeout=600)
            except subprocess.TimeoutExpired:
                raise vlib.Inconclusive("coresim batch %d/%d timed out" % (rnd, idx))
            last = next((x for x in reversed(p.stdout.strip().splitlines()) if x.startswith("scenarios=")), "")
            if p.returncode != 0 or not last.startswith("scenarios="):
                ctx.save_debug(type("R", (), {"out": p.stdout})(), "coresim_r%d_%d.txt" % (rnd, idx))
                raise vlib.Inconclusive("coresim batch failed rc=%d: %s" % (p.returncode, vlib.tail(p.stdout, 12)))
            return ctx.read_ndjson(trc) if os.path.exists(trc) else []

        got = {}
        with ThreadPoolExecutor(max_workers=procs) as ex:
            for lines in ex.map(run_part, enumerate(parts)):
                for ln in lines:
                    got.setdefault(ln.get("scn", -1), []).append(ln)
        again = []
        for s in todo:
            ls = got.get(s["id"], [])
            rep = [ln for ln in ls if ln["ev"] == "ApiReply" and ln.get("call") == "create"]
            if rep and not rep[0].get("timeout"):
                lines_by_scn[s["id"]] = ls
            else:
                hung += 1 if rep else 0
                again.append(s)
        if again:
            ctx.log("round %d: %d scenarios to run again (create calls that hung: %d so far)" % (rnd, len(again), hung))
        todo = again
    if todo:
        raise vlib.Inconclusive("scenarios without a create reply after %d rounds: %s" % (rounds, [s["id"] for s in todo][:10]))
    out = []
    for s in scenarios:
        out += lines_by_scn[s["id"]]
    return out, hung


def cases_of(ctx, r, what):
    recs = r.records("CASE")
    if not recs:
        ctx.save_debug(r, "gen_%s.txt" % what)
        raise vlib.Inconclusive("no cases generated (%s): %s" % (what, vlib.tail(r.out)))
    return [{"case": c[1], "outcome": c[2], "pred": sorted(c[3]["$set"]), "vocab": c[4], "iter": c[5]} for c in recs]


def signature(inv, scn, detail, case):
    sig = {"inv": inv, "scn": scn}
    els = detail.get("$set", []) if isinstance(detail, dict) else []
    if inv == "ConnectMatchesBind":
        sig["binder_explicit"] = bool(els) and all(isinstance(e, dict) and e.get("explicit") for e in els)
        sig["via"] = "+".join(sorted({e.get("via", "?") for e in els if isinstance(e, dict)}))
    elif inv == "AliasConflictRejected":
        sig["claimants"] = "+".join(sorted({e.get("claimants", "?") for e in els if isinstance(e, dict)}))
    sig["ntasks"] = len(case.get("tasks", []))
    sig["inb"] = ["%s/%s/%s/%s/%s/%s" % (d["lvl"], d["name"], d["addr"], d["tr"], d["alias"] or "-", d["xt"] or "-") for d in case.get("inb", [])]
    sig["stale_props"] = ["%s:%s" % (pr["task"], pr["name"]) for pr in case.get("props", [])]
    sig["outb"] = ["%s/%s/%s/%s" % (o["lvl"], o["name"], o["tk"], (o["tt"] + ":" + o["tn"]) if o["tk"] == "path" else o["ta"]) for o in case.get("outb", [])]
    return sig


def run(ctx):
    _run(ctx, None)


def replay(ctx, obj):
    """./check C13 --replay evidence/replays/C13/<file>.json: run that scenario again (workflow files as recorded)."""
    _run(ctx, obj["scenario"])


def _run(ctx, replay_scn):
    quick = ctx.tier == "quick"
    ctx.assumptions += [
        "Mesos master, agents and executors are simulated; FairMQ itself is not run: the property is about what each side is told "
        "(chans.<name>.0.address/method/transport in the CONFIGURE command) and about the ports granted in the ACCEPT call",
        "tasks use control mode direct or fairmq (basic/hook tasks are pushed no channel properties at all)",
        "explicit bind targets are declared with the default (tcp) addressing; channel names are unique per level",
        "explicit addresses contain upper- and lower-case characters; a connect target with an upper-case scheme (TCP://...) is, as in "
        "the code, not an explicit address: it is matched against the bind map and must fail the configuration",
    ]
    ctx.rule = ("case = (1-3 tasks on 1-2 hosts, <= 2 inbound and <= 2 outbound declarations placed at template / task-role / "
                "aggregator-role / root level, addressing, transport, alias, explicit targets, path/alias/explicit/dangling connect "
                "targets, stale chans.* defaults in the template's properties) + binder/connector pairs generated by a for: iterator "
                "(2-3 iterations on one or several hosts, iteration-dependent targets and aliases); core catalogue exhaustive + seeded TLC simulation of the full catalogue; non-trivial = every case "
                "(each configures or must be rejected)")
    scenarios = []
    meta = {}
    if replay_scn is not None:
        sc = dict(replay_scn)
        sc["model"] = dict(sc["model"])
        sc["model"].setdefault("props", [])   # replays recorded before the stale-properties dimension existed
        sc["origin"] = "replay"
        scenarios.append(sc)
        meta[sc["id"]] = {"pred": []}
        ctx.count_case(json.dumps(sc["model"], sort_keys=True))
    else:
        # 1. exhaustive check of the model's consistency invariants over the mid/large catalogue
        ctx.model_check("ChannelsGen", None, cfg_text=cfg_gen(ctx, "mid" if quick else "large", False), timeout=1500)
        # 2. cases: the core catalogue (exhaustive) + a seeded sample of the full catalogue
        r = ctx.tlc("ChannelsGen", None, workers=1, cfg_text=cfg_gen(ctx, "core", True))
        if not r.no_error:
            ctx.save_debug(r, "gen_core.txt")
            raise vlib.Inconclusive("core catalogue: TLC did not finish cleanly: " + vlib.tail(r.out))
        core = cases_of(ctx, r, "core")
        ctx.states += r.distinct
        ctx.transitions += r.generated
        nsim = 260 if quick else 4200
        rs = ctx.tlc("ChannelsGen", None, workers=1, cfg_text=cfg_gen(ctx, "full", True), sim="num=%d" % nsim,
                     extra=["-depth", "8", "-seed", str(ctx.seed)], timeout=900)
        if rs.violated:
            ctx.save_debug(rs, "gen_sim.txt")
            raise vlib.Inconclusive("model inconsistency on a sampled case (%s): %s" % (rs.violated, vlib.tail(rs.out, 30)))
        sampled = cases_of(ctx, rs, "sample")
        seen = set()
        for origin, lst in (("core", core), ("sample", sampled)):
            for c in lst:
                key = json.dumps([c["case"], c["iter"]], sort_keys=True)   # (different spellings of one expansion are different cases)
                if key in seen:
                    continue
                seen.add(key)
                sid = len(scenarios) + 1
                if c["iter"]["n"] > 0:
                    scenarios.append(scenario_iter(sid, c["case"], c["vocab"], c["iter"], origin))
                else:
                    scenarios.append(scenario(sid, c["case"], c["vocab"], origin))
                meta[sid] = c
                ctx.count_case(key)
    ncore = sum(1 for s in scenarios if s["origin"] == "core")
    ctx.log("scenarios: %d (core catalogue %d)" % (len(scenarios), ncore))
    ctx.exhaustive = False
    ctx.extra["cases_core"] = ncore
    ctx.extra["cases_sampled"] = len(scenarios) - ncore
    by_id = {s["id"]: s for s in scenarios}
    run_list = [{k: v for k, v in s.items() if k not in ("origin", "iter")} for s in scenarios]
    # 3. run on the real core
    lines, hung = run_batches(ctx, run_list)
    ctx.extra["create_calls_hung_and_rerun"] = hung
    if hung:
        ctx.observations.append("%d create call(s) did not return within 8 s (teardown after a failed CONFIGURE stuck between the "
                                "phases 'cancelled' and 'released2' of TeardownEnvironment - not a C13 matter); those scenarios were "
                                "run again in a fresh core" % hung)
    proj = project(lines)
    tf = ctx.path("trace.ndjson")
    ctx.write_ndjson(tf, proj)
    replied = {p["scn"] for p in proj if p["ev"] == "ApiReply"}
    missing = [s["id"] for s in scenarios if s["id"] not in replied]
    if missing:
        raise vlib.Inconclusive("no create reply recorded for scenarios %s" % missing[:10])
    if any(p["ev"] == "ApiReply" and p["timeout"] for p in proj):
        raise vlib.Inconclusive("a create call timed out")
    ex = scenarios[min(40, len(scenarios) - 1)]
    ctx.sample({"case": ex["model"], "workflow": ex["files"]["workflows/c13wf%d.yaml" % ex["id"]]})
    ctx.sample({"trace": [p for p in proj if p["scn"] == ex["id"]]})
    # 4. validate
    viol, drift, tr = ctx.validate("ChannelsTrace", None, tf, cfg_text=cfg_trace(ctx), timeout=1500)
    harness = tr.records("HARNESS")
    if harness:
        h = harness[0]
        raise vlib.Inconclusive("create failed for a reason outside the property in scenario %s (%s): %s" % (
            h[1], h[3], [l.get("errtext") for l in lines if l.get("scn") == h[1] and l.get("ev") == "ApiReply"][:1]))
    ctx.traces = len(scenarios)
    ctx.extra["trace_lines"] = len(proj)
    for d in drift:
        ctx.drift.append({"scn": d[1], "line": d[2], "what": d[3], "model": by_id.get(d[1], {}).get("model")})
    flagged = {}
    for v in viol:
        flagged.setdefault(v[2], set()).add(v[1])
    # a violation the model predicts (deviation constants) must be reproduced by the recorded run
    unrep = [(sid, m["pred"]) for sid, m in meta.items() if not set(m["pred"]) <= flagged.get(sid, set())]
    outcomes = {}
    for p in proj:
        if p["ev"] == "ApiReply":
            o = "configured" if p["code"] == "OK" else p["why"]
            outcomes[o] = outcomes.get(o, 0) + 1
    ctx.extra["outcomes"] = outcomes
    ctx.observations.append(
        "a connect declaration in a TASK TEMPLATE loses its target when the class is loaded (taskclass/class.go: 'will be ignored'); "
        "unless a role-level declaration of the same name overrides it CONFIGURE is rejected ('could not match target for outbound "
        "channel ') - also when the template target was an explicit tcp:// / ipc:// address; the model describes this as designed")
    ctx.observations.append(
        "MergeInbound/MergeOutbound merge the overridden declaration into a loop copy (no effect): the nearest level replaces a "
        "declaration of the same name as a whole (e.g. the template's global alias is not inherited); modelled as such")
    seen_v = set()
    for v in viol:
        inv, scn, detail = v[1], v[2], v[4]
        if (inv, scn) in seen_v:
            continue
        seen_v.add((inv, scn))
        case = by_id.get(scn, {}).get("model", {})
        sig = signature(inv, scn, detail, case)
        if by_id.get(scn, {}).get("iter"):
            it = by_id[scn]["iter"]
            sig["iterator"] = "n=%s hosts=%s alias=%s target=%s" % (it["n"], it["hosts"], it["alias"], it["tgt"])
        ctx.add_violation(sig,
                          replay_obj={"scenario": {k: v2 for k, v2 in by_id.get(scn, {}).items()}, "detail": detail,
                                      "trace": [p for p in proj if p["scn"] == scn]})
    if unrep and not ctx.violations:
        raise vlib.Inconclusive("MODEL-UNREPRODUCED: predicted violations not flagged on the real code: %s" % unrep[:5])
