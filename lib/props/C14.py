"""C14 - variables resolve by documented precedence at every role.

Model: spec/VarStack.tla (functional; the precedence stated declaratively - ranked sources, highest-ranking
definition wins - and operationally - gera Flattened / ConsolidatedVarStack / template stages / task class
wrapping -, TLC checks over every enumerated path that the two agree plus the consequences: nearer wins, user
over vars over defaults, empty is a definition, stage visibility, class below workflow).
Cases: the single-key cell assignments [1..3(d+1) -> {absent, empty, value}] (all for d <= 2, a seeded sample
for d = 3) and the catalogues of spec/VarStackGen.tla enumerated by TLC (two keys with a template reference
between levels, iterator-generated roles, task-class cells).
Binding: harness/cmd/varstack builds every case as a real workflow (YAML unmarshalled as workflow.Load does,
under a ParentAdapter holding the environment-level cells), runs the real template processing and records what
every role sees (ConsolidatedVarStack / ConsolidatedVarMaps, the stack of every template stage, fields rendered
at stages 1..5, the command line and property map of a task, the value a call gets).
Oracle: spec/VarStackTrace.tla - TLC computes every expected value from the TLA+ definitions.
"""
import concurrent.futures
import threading
import itertools
import json
import os
import random

import vlib

WORKERS = int(os.environ.get("VERIF_WORKERS", "0") or 0) or vlib.NCPU
NPROC = max(2, min(8, (int(os.environ.get("VERIF_WORKERS", "0") or 0) or vlib.NCPU // 2)))

INV_MAIN = ("CodeAgreesResolve CodeAgreesStages CodeAgreesMaps NearerWins UserOverVarsOverDefaults EmptyIsDefinition "
            "DefinedIffResolved StageEnds StageBlind LocalRanksAsVars IncludeIsALevel StoreWithinOwnKind RuntimeWriteIsLocal EnvLookupAgrees")


def _b(x):
    return "TRUE" if x else "FALSE"


def cfg_model(maxd, with_it, with_class, invs, with_inc=False, role_depth=None, env="EnvAll"):
    return """SPECIFICATION Spec
CONSTANTS
  MaxD = %d
  WithIt = %s
  WithClass = %s
  WithInc = %s
  RoleDepth = %d
  EnvCells <- %s
INVARIANTS %s
CHECK_DEADLOCK FALSE
""" % (maxd, _b(with_it), _b(with_class), _b(with_inc), maxd if role_depth is None else role_depth, env, invs)


def cfg_gen(gend, inc_levels=()):
    return """SPECIFICATION Spec
CONSTANTS
  MaxD = 0
  WithIt = FALSE
  WithClass = FALSE
  WithInc = FALSE
  RoleDepth = 0
  EnvCells <- EnvFew
  GenD = %d
  IncLevels = {%s}
CHECK_DEADLOCK FALSE
""" % (gend, ", ".join(str(x) for x in inc_levels))


def cfg_trace(nchunks):
    return """SPECIFICATION TraceSpec
CONSTANTS
  MaxD = 4
  WithIt = TRUE
  WithClass = TRUE
  WithInc = TRUE
  RoleDepth = 4
  EnvCells <- EnvAll
  NChunks = %d
INVARIANT PrintEnd
CHECK_DEADLOCK FALSE
""" % nchunks


def validate(ctx, trace_file, nlines):
    """Trace validation with several TLC workers: the cases are independent, the trace specification walks the file as
    NChunks chains.  Accepts only if the chains' END records cover every line exactly once."""
    nchunks = max(1, min(WORKERS * 4, nlines // 200))
    r = ctx.tlc("VarStackTrace", None, workers=WORKERS, env={"TRACE_FILE": trace_file}, timeout=2400, cfg_text=cfg_trace(nchunks))
    end = r.records("END")
    covered = r.no_error and end and sum(e[1] for e in end) == nlines and len({e[3] for e in end}) == len(end) \
        and all(e[4] == nlines for e in end)
    if not covered:
        ctx.save_debug(r, "tlc_trace_VarStackTrace.txt")
        raise vlib.Inconclusive("trace validation did not cover %s: %s" % (trace_file, vlib.tail(r.out, 25)))
    viol, drift = r.records("VIOL"), r.records("DRIFT")
    if sum(e[2] for e in end) != len(viol):
        # records printed by different workers got interleaved: repeat with one worker for a clean report
        ctx.log("re-validating with one worker (%d violations counted, %d records parsed)" % (sum(e[2] for e in end), len(viol)))
        return ctx.validate("VarStackTrace", None, trace_file, cfg_text=cfg_trace(1), timeout=2400)
    ctx.states += r.distinct
    ctx.transitions += r.generated
    return viol, drift, r


def gen_catalogues(ctx, gend, inc_levels=()):
    """TLC evaluates the catalogues of VarStackGen for depth gend (the plain ones, or - inc_levels given - the ones with an
    include role at these levels); returns {family: [case, ...]}."""
    fams = ("inc", "inctwo") if inc_levels else (("two", "it", "class", "rt") if gend == 2 else ("two", "it", "class"))
    files = {fam: ctx.path("gen", "%s_d%d.ndjson" % (fam, gend)) for fam in fams}
    r = ctx.tlc("VarStackGen", None, workers=1, cfg_text=cfg_gen(gend, inc_levels), timeout=300,
                env={"GEN_" + fam.upper(): f for fam, f in files.items()})
    if not r.no_error or len(r.records("GEN")) != len(fams):
        ctx.save_debug(r, "tlc_gen_d%d.txt" % gend)
        raise vlib.Inconclusive("case generation (VarStackGen, d=%d) failed: %s" % (gend, vlib.tail(r.out)))
    out = {}
    for fam, f in files.items():
        out[fam] = ctx.read_ndjson(f)
        for rec in r.records("GEN"):
            if rec[1] == f and rec[2] != len(out[fam]):
                raise vlib.Inconclusive("catalogue %s: TLC reports %d cases, file has %d" % (fam, rec[2], len(out[fam])))
    return out


def pick(rng, cases, n):
    if n is None or n >= len(cases):
        return list(cases)
    return rng.sample(cases, n)


def canonical(c):
    return json.dumps([c["fam"], c["d"], c["c"], c.get("o") or [], c.get("ref") or [], c.get("it", 0), c.get("cc") or [0, 0],
                       c.get("inc", 0), c.get("rt")], separators=(",", ":"))


def pattern(c):
    """The cell pattern of a case as a compact string: per level d/v/u cells (- absent, e empty, V value, R reference)."""
    def vec(v, refs):
        out = []
        for lev in range(len(v) // 3):
            s = ""
            for kd in range(3):
                x = v[3 * lev + kd]
                s += "-eV"[x] if [lev, kd] not in refs else "R"
            out.append(s)
        return "/".join(out)
    s = "k:" + vec(c["c"], c.get("ref") or [])
    if c.get("o"):
        s += " o:" + vec(c["o"], [])
    if c.get("it"):
        s += " it:%d" % c["it"]
    if c.get("inc"):
        s += " include:%d" % c["inc"]
    if c.get("rt"):
        s += " write:%s k on %s%d of instance %d" % (c["rt"]["op"], c["rt"]["tv"], c["rt"]["tl"], c["rt"]["w"])
    if c.get("cc") and c["cc"] != [0, 0]:
        s += " class:" + "-eV"[c["cc"][0]] + "-eV"[c["cc"][1]]
    return s


RENDERED = {"A": ["defaults entry (stage 1)", "vars entry (stage 2)", "user var (stage 3)", "name (stage 4)", "constraint (stage 5)"],
            "S": ["defaults entry (stage 1)", "vars entry (stage 2)", "constraint (stage 5)"],
            "B": ["defaults entry (stage 1)", "vars entry (stage 2)", "name (stage 4)", "constraint (stage 5)"]}
ROLE = {"E": "environment", "A": "aggregator", "T": "task role", "C": "call role", "I": "include role", "S": "included sub-workflow root",
        "B": "aggregator inside the sub-workflow"}


def role_name(v):
    if isinstance(v, str) and len(v) == 2 and v[1] in "12":    # "A2": variant + iterator instance
        return "%s (iterator instance %s)" % (ROLE.get(v[0], v[0]), v[1])
    return ROLE.get(v, v)


def field_name(inv, variant, j):
    """Name of position j of a recorded role (see spec/VarStackTrace.tla ExpectedRecord)."""
    if not isinstance(j, int):
        return str(j)
    if inv in ("RuntimeWriteLocal", "CallReturnLocal"):
        return {5: "ConsolidatedVarStack after the runtime write", 6: "ConsolidatedVarMaps user vars after the runtime write",
                7: "user var `ret` (return of the call made on the instance-1 sibling)"}.get(j, "field %d" % j)
    if inv == "ClassBelowWorkflow":
        return ["command value", "argument", "env", "property"][j - 1]
    if variant == "E":
        return ["GlobalDefaults", "GlobalVars", "UserVars", "BaseConfigStack", 'Environment.GetKV("", k)'][j - 3]
    if variant == "I":
        return "stage %d stack" % (j - 3) if j <= 8 else "name (stage 4)"
    if j == 3:
        return "ConsolidatedVarStack"
    if 4 <= j <= 9:
        return "stage %d stack" % (j - 4)
    if variant == "C":
        return "call result"
    if 10 <= j <= 12:
        return "ConsolidatedVarMaps " + ["defaults", "vars", "user vars"][j - 10]
    names = RENDERED.get(variant, [])
    return names[j - 13] if 0 <= j - 13 < len(names) else "field %d" % j


def replay(ctx, robj):
    """./check C14 --replay <file>: run the recorded case alone on the real code and validate it."""
    run(ctx, replay_case=robj["scenario"])


def run(ctx, replay_case=None):
    quick = ctx.tier == "quick"
    rng = random.Random(ctx.seed * 1000003 + (0 if quick else 1))
    ctx.assumptions += [
        "a path of at most 4 nested roles under the environment; one probed key (plus one referenced key); what a role sees does "
        "not depend on its siblings or descendants",
        "role-level user vars are set with Role.SetRuntimeVar (the YAML cannot carry them); the environment level is built by the real "
        "environment.newEnvironment (VerifVSNewEnvironment): its defaults and vars cells are served by the configuration service "
        "from a YAML-file store (o2/runtime/aliecs/defaults|vars, rewritten per case), its user vars are the request's",
        "a template reference to a key is probed with {{ $env?.k }} (renders <nil> when the key is not in the stack) so that absence "
        "is observable without failing the load; the plain form {{ o }} is used in the two-key cases (absence = load error)",
        "the iterator variable is read as: on top of the stack during the generated role's own template stages, a vars definition "
        "of that role afterwards (configuration/template/fields.go, ProcessTemplates of the role types)",
        "the stage table is the one in configuration/template/fields.go (Stage constants, VarStack.consolidated); the handbook has none",
        "an include role is two levels: its own defaults/vars/user vars, then the root of the sub-workflow it loads (served from "
        "memory by VerifVSLoadSubworkflowFunc, the same steps as the loadSubworkflow closure of workflow.Load); roles inside the "
        "sub-workflow get no user vars of their own (it does not exist before the load)",
        "Environment.GetKV is asked on the environment built by newEnvironment after the loaded root role has been attached to it "
        "as Manager.CreateEnvironment does (env.workflow = root, set through reflection: the field has no exported setter)",
        "runtime writes are one Role.SetRuntimeVar / DeleteRuntimeVar (what plugins call) or one real callable.Call.Call() with a "
        "`return` variable, made single-threaded after the load, on one of the two roles an iterator generated",
        "the whole-core path (TaskInfo.Data, CONFIGURE properties over the wire) is not exercised here",
    ]
    ctx.rule = ("case = an assignment of {absent, empty, value} to the 3 kinds x (d+1) levels of key k [+ second key with a template "
                "reference, iterator level, include-role level, task-class cells, runtime write on one of two generated instances]; distinct = distinct assignments; non-trivial = at least one cell defined; "
                "every case is built as a real workflow and every role on the path is observed")


    # 1. the model: declarative precedence = operational code model, on every path (runs while the cases are driven, see 3.)
    def check_model():
        if quick:
            ctx.model_check("VarStack", "d2", cfg_text=cfg_model(2, False, False, INV_MAIN), workers=WORKERS, timeout=600)
        else:
            ctx.model_check("VarStack", "d2-iterators", cfg_text=cfg_model(2, True, False, INV_MAIN), workers=WORKERS, timeout=600)
        ctx.model_check("VarStack", "class-d%d" % (1 if quick else 2),
                        cfg_text=cfg_model(1 if quick else 2, False, True, "ClassBelowWorkflow"), workers=WORKERS, timeout=600)
        # include roles (written out or generated by an iterator) under the workflow root; in quick the same run
        # carries the iterator-generated plain roles (one environment vector)
        if quick:
            ctx.model_check("VarStack", "d3-include-iterators", workers=WORKERS, timeout=900,
                            cfg_text=cfg_model(3, True, False, INV_MAIN, with_inc=True, role_depth=2, env="EnvOne"))
        else:
            ctx.model_check("VarStack", "d3-include", workers=WORKERS, timeout=900,
                            cfg_text=cfg_model(3, False, False, INV_MAIN, with_inc=True, role_depth=1, env="EnvAll"))
        if not quick:
            ctx.model_check("VarStack", "d3", cfg_text=cfg_model(3, False, False, INV_MAIN), workers=WORKERS, timeout=1500)
        bad = [m for m in ctx.model_runs if m["result"] != "ok"]
        if bad:
            # the model contradicts itself (declarative vs operational definition): a modelling error, never a verdict
            raise vlib.Inconclusive("VarStack.tla: %s" % json.dumps(bad))

    # 2. the cases
    cases = []
    if replay_case:
        cases.append(dict(replay_case))
    else:
        def single(d, vec):
            # class cells drawn at random; the task / call role variants of every level are built for a fifth of this family
            return {"fam": "one", "d": d, "c": list(vec), "it": 0, "cc": [rng.randrange(3), rng.randrange(3)],
                    "notc": d >= 2 and rng.random() < 4 / 5}
        for d in (1, 2):
            for vec in itertools.product((0, 1, 2), repeat=3 * (d + 1)):
                cases.append(single(d, vec))
        n3 = 600 if quick else 30000
        seen = set()
        while len(seen) < n3:
            seen.add(rng.randrange(3 ** 12))
        for x in sorted(seen):
            vec = []
            for _ in range(12):
                vec.append(x % 3)
                x //= 3
            cases.append(single(3, vec))
        cat2 = gen_catalogues(ctx, 2)
        ctx.extra["catalogues"] = {"d2": {k: len(v) for k, v in cat2.items()}}
        cases += pick(rng, cat2["two"], 1000 if quick else None)
        cases += pick(rng, cat2["it"], 600 if quick else None)
        cases += cat2["class"]
        # runtime writes (SetRuntimeVar / DeleteRuntimeVar, a call's return) on one of two roles generated by an iterator
        cases += pick(rng, cat2["rt"], 300 if quick else 3000)
        # include roles: plain, with own defaults/vars/user vars, generated by an iterator; leaves below the sub-workflow root
        cati = gen_catalogues(ctx, 4, (2,) if quick else (2, 3))
        ctx.extra["catalogues"]["d4-include"] = {k: len(v) for k, v in cati.items()}
        cases += pick(rng, cati["inc"], 700 if quick else 8000)
        cases += pick(rng, cati["inctwo"], 250 if quick else None)
        if not quick:
            cat3 = gen_catalogues(ctx, 3)
            ctx.extra["catalogues"]["d3"] = {k: len(v) for k, v in cat3.items()}
            cases += pick(rng, cat3["two"], 4000)
            cases += pick(rng, cat3["it"], 3000)
            cases += pick(rng, cat3["class"], 1000)
    for i, c in enumerate(cases):
        c["id"] = i + 1
        # concurrent / sequential template processing of the children (two-instance cases: sequential, so that a role
        # sharing state with its sibling shows as a wrong value, not as a data race)
        c["conc"] = rng.random() < 0.5 and not c.get("rt")
        c["pub"] = rng.random() < 0.3        # defined defaults/vars cells partly in the !public mapping form
        if not c.get("o"):
            c.pop("o", None)
        if not c.get("ref"):
            c.pop("ref", None)
    by_id = {c["id"]: c for c in cases}
    fams = {}
    for c in cases:
        fams[c["fam"] + "-d%d" % c["d"]] = fams.get(c["fam"] + "-d%d" % c["d"], 0) + 1
        ctx.count_case(canonical(c), nontrivial=any(c["c"]) or any(c.get("cc") or []))
    ctx.extra["cases"] = fams
    ctx.log("cases: %s" % json.dumps(fams))

    # 3. run them on the real code (several driver processes side by side: a case costs ~2-8 ms of real template processing)
    #    while TLC checks the model (no other TLC run is started before the model thread is joined)
    model_err = []

    def model_thread():
        try:
            check_model()
        except BaseException as e:  # re-raised in the main thread
            model_err.append(e)

    mt = None
    if not replay_case:
        mt = threading.Thread(target=model_thread)
        mt.start()
    try:
        binp = ctx.build("varstack")
    except BaseException:
        if mt:
            mt.join()
        raise
    nproc = 1 if len(cases) < 200 else NPROC
    chunks = [cases[i::nproc] for i in range(nproc)]

    def drive(i):
        scn = ctx.path("scn_%d.ndjson" % i)
        trc = ctx.path("trace_%d.ndjson" % i)
        ctx.write_ndjson(scn, chunks[i])
        out = ctx.run([binp, "-scenarios", scn, "-trace", trc], timeout=1500, env={"GOGC": "400"})  # short-lived garbage only
        return trc, out.strip()

    try:
        with concurrent.futures.ThreadPoolExecutor(max_workers=nproc) as ex:
            results = list(ex.map(drive, range(nproc)))
    finally:
        if mt:
            mt.join()
    if model_err:
        raise model_err[0]
    lines = []
    for trc, out in results:
        lines += ctx.read_ndjson(trc)
    lines.sort(key=lambda x: x["scn"])
    ctx.log("replayed %d cases in %d processes" % (len(lines), nproc))
    if len(lines) != len(cases) or any(x["scn"] != c["id"] for x, c in zip(lines, cases)):
        raise vlib.Inconclusive("driver recorded %d lines for %d cases" % (len(lines), len(cases)))
    odd = [x for x in lines if x["err"] not in ("", "unknown-name")]
    if odd:
        raise vlib.Inconclusive("driver could not run case %d (%s): %s" % (odd[0]["scn"], pattern(by_id[odd[0]["scn"]]), odd[0]["err"]))
    trace_file = ctx.path("trace.ndjson")
    ctx.write_ndjson(trace_file, lines)
    ctx.sample({"case": cases[min(len(cases) - 1, 5000)], "pattern": pattern(cases[min(len(cases) - 1, 5000)])})
    ctx.sample({"trace_line": lines[min(len(lines) - 1, 5000)]})

    # 4. TLC computes the expected values and compares (monitor + conformance)
    viol, drift, tr = validate(ctx, trace_file, len(lines))
    ctx.traces = len(lines)
    ctx.extra["trace_lines"] = len(lines)
    ctx.extra["load_errors_expected_and_observed"] = sum(1 for x in lines if x["err"])
    ctx.exhaustive = False
    ctx.extra["exhaustive_families"] = ([] if replay_case else
                                        ["single key, d=1 (729) and d=2 (19683): every assignment run on the real code"])
    for d in drift:
        c = by_id.get(d[1], {})
        ctx.drift.append({"scn": d[1], "line": d[2], "pattern": pattern(c) if c else "?", "fam": c.get("fam")})
    seen_v = set()
    total = 0
    for v in viol:
        inv, scn, detail = v[1], v[2], v[4]
        c = by_id.get(scn, {})
        total += 1
        sig = (inv, scn)
        if sig in seen_v or len(seen_v) >= 60:
            continue
        seen_v.add(sig)
        vd = {"inv": inv, "fam": c.get("fam"), "pattern": pattern(c) if c else "?", "d": c.get("d"), "detail": detail}
        if isinstance(detail, list) and len(detail) >= 5:
            vd.update({"level": detail[0], "role": role_name(detail[1]), "field": field_name(inv, detail[1], detail[2]),
                       "got": detail[3], "expected": detail[4]})
        ctx.add_violation(vd, replay_obj={"scenario": c, "trace": [x for x in lines if x["scn"] == scn]})
    ctx.extra["viol_records"] = total

    # 5. what the property leaves open, as observed
    for x in lines:
        c = by_id[x["scn"]]
        if c.get("cc") == [2, 2]:
            t = [e for e in x["r"] if e[1] == "T" and e[2] == "~"]
            if t and t[0][9] == "kcd" and t[0][12] == "kcv":
                ctx.observations.append("a task class's own defaults outrank its own vars on the command line (BuildTaskCommand) while its "
                                        "vars outrank its defaults in the property map (BuildPropertyMap) [case %s]; both rank below the "
                                        "workflow, which is all the property asks" % pattern(c))
                break
    for x in lines:
        c = by_id[x["scn"]]
        if c.get("it"):
            e = [e for e in x["r"] if e[0] == c["it"] and e[1] == "T"]
            if e and e[0][2].startswith("k") and e[0][2].endswith("u") and e[0][8].startswith("it"):
                ctx.observations.append("a user var named like the iterator variable outranks it for the task of the generated role "
                                        "(ConsolidatedVarStack: %r) although the role's own name/constraints were rendered with the "
                                        "iterator value (%r): locals are on top during template stages and become plain vars afterwards "
                                        "[case %s]" % (e[0][2], e[0][8], pattern(c)))
                break
