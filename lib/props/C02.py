"""C02 - a transition succeeds iff every critical task acknowledged it.

Model: spec/TaskTransition.tla (exhaustive). Cases (workflow shape x criticality x event x outcome
vector) are enumerated by TLC (TaskTransitionGen), each is run on the real core through the
whole-core simulation (real gRPC API, simulated Mesos/executors answering per script), and the
recorded runs are validated by TLC against spec/TaskTransitionTrace.tla.
"""
import re
import json

import coresim as cs
import vlib

DEVS = {"Code_SingleRespIgnoresCritical": "single-response-ignores-critical",
        "Code_ZeroTargetsIsError": "zero-targets-nil-response",
        "Code_ConfigureWaitsForever": "configure-without-tasks-hangs",
        "Code_DeployNeedsAllActive": "deploy-needs-all-active"}
LAUNCH = {"err_src": "silent", "err_error": "failed", "silent": "silent"}
OUTCOMES = {"quick": '{"ok", "err_src", "err_error"}', "thorough": '{"ok", "err_src", "err_error"}'}
OPS = {"START": "START_ACTIVITY", "STOP": "STOP_ACTIVITY", "RESET": "RESET"}


def consts(ctx, tasks):
    lines = ["  Tasks = %s" % tasks, "  Outcomes = %s" % OUTCOMES[ctx.tier]]
    for c, key in DEVS.items():
        lines.append("  %s = %s" % (c, "TRUE" if ctx.deviation_open(key) else "FALSE"))
    return "\n".join(lines)


def cfg_model(ctx, tasks):
    return "SPECIFICATION Spec\nCONSTANTS\n%s\nINVARIANTS TypeOK Iff FailureIsError NothingToCommand NeverHung VerdictAgrees\nCHECK_DEADLOCK FALSE\n" % consts(ctx, tasks)


def cfg_gen(ctx, tasks):
    return "SPECIFICATION GenSpec\nCONSTANTS\n%s\nINVARIANT PrintCase\nCHECK_DEADLOCK FALSE\n" % consts(ctx, tasks)


def cfg_trace(ctx):
    return "SPECIFICATION TraceSpec\nCONSTANTS\n%s\nINVARIANT PrintEnd\nCHECK_DEADLOCK FALSE\n" % consts(ctx, '{"t1", "t2", "t3"}')


def scenario(sid, present, crit, event, outcome, verdict, early=False, lose=None, lost_before=None, dead=(), iterated=False):
    """early: ok answers are on their way before the MESSAGE call returns; lose = (kind, task): that task's executor/agent is
    reported lost (Mesos FAILURE event) once the command under test has reached it; dead = non-critical tasks that have
    failed (TASK_FAILED, status INACTIVE) before the request under test arrives: they are no targets any more."""
    tasks = []
    files = {}
    roles = ""
    scripts = []
    for t in sorted(present):
        cls = "c02s%d%s" % (sid, t)
        files["tasks/%s.yaml" % cls] = cs.task_class(cls)
        if not iterated:
            roles += cs.role_task(t, cls, critical=crit[t])
        tasks.append({"id": t, "class": cls, "crit": crit[t], "outcome": outcome[t], "dead": t in dead})
        if outcome[t] == "ok" and early and event != "DEPLOY":
            scripts.append({"class": cls, "event": event, "outcome": "ok_early"})
        if lost_before and t == lost_before[1]:
            continue      # no script: the command cannot even be sent to it
        if outcome[t] != "ok":
            if event == "DEPLOY":
                scripts.append({"class": cls, "launch": LAUNCH[outcome[t]]})
            else:
                scripts.append({"class": cls, "event": event, "outcome": outcome[t]})
    if iterated:
        # the task roles come from ONE `for:` iterator (same criticality for all, written out explicitly): t1, t2, ...
        nums = sorted(t[1:] for t in present)
        c = crit[sorted(present)[0]]
        roles += ('  - name: "t{{ it }}"\n    for:\n      range: \'[%s]\'\n      var: it\n    task:\n      load: c02s%dt{{ it }}\n      critical: %s\n'
                  % (", ".join('"%s"' % n for n in nums), sid, "true" if c else "false"))
    # a call role that never fires keeps the workflow valid when there is no task at all
    roles += cs.role_call("idle", "idle", "enter_ERROR", critical=False)
    wf = "c02wf%d" % sid
    files["workflows/%s.yaml" % wf] = cs.workflow(wf, roles, vars_={"deploy_timeout": "2s"} if event == "DEPLOY" else None)
    hung = verdict == "hung"
    slow = any(t["outcome"] == "silent" for t in tasks) and event != "DEPLOY"   # costs the code's real 90 s response timeout
    steps = [{"do": "create", "env": "e1", "wf": wf, "timeout_ms": 4000 if hung else (15000 if event == "DEPLOY" else 0)}]
    model = {"tasks": tasks, "event": event, "call": "create" if event in ("CONFIGURE", "DEPLOY") else "control", "op": OPS.get(event, "")}
    if dead:
        # the environment exists (CONFIGURED); bring it to the source state of the event, let the tasks die, then ask
        pre = {"CONFIGURE": ["RESET"], "STOP": ["START_ACTIVITY"]}.get(event, [])
        for op in pre:
            steps.append({"do": "control", "env": "e1", "op": op})
        for t in sorted(dead):
            steps += [{"do": "fault", "kind": "TASK_FAILED", "class": "c02s%d%s" % (sid, t)},
                      {"do": "waitstatus", "class": "c02s%d%s" % (sid, t), "kind": "INACTIVE", "timeout_ms": 5000}]
        model["call"] = "control"
        model["op"] = {"CONFIGURE": "CONFIGURE"}.get(event, OPS.get(event, ""))
        steps.append({"do": "control", "env": "e1", "op": model["op"]})
    elif event not in ("CONFIGURE", "DEPLOY"):
        if event == "STOP":
            # the START that precedes the STOP under test must not be disturbed by the scripts (event-specific)
            steps.append({"do": "control", "env": "e1", "op": "START_ACTIVITY"})
            model["call"] = "control"
        if lost_before:
            # the executor (agent) of that task is reported lost and the request arrives while the task manager is still
            # digesting it: ids already blanked, role still ACTIVE (the reaction is held at its state update)
            steps += [{"do": "gate", "point": "task.state.update", "match": {"state": "ERROR"}},
                      {"do": "fault", "kind": lost_before[0], "class": "c02s%d%s" % (sid, lost_before[1])},
                      {"do": "waitgate", "point": "task.state.update", "timeout_ms": 5000},
                      {"do": "control", "env": "e1", "op": OPS[event]},
                      {"do": "ungate", "point": "task.state.update"}]
        elif lose:
            # (the loss is injected once the command has reached the task - waiting for that, not for a time to pass: a loss
            #  that overtakes the command is another case, see the dead-critical family)
            steps += [{"do": "c03track"},
                      {"do": "control", "env": "e1", "op": OPS[event], "timeout_ms": 115000 if slow else 0, "caller": "T"},
                      {"do": "waitcmd", "class": "c02s%d%s" % (sid, lose[1]), "op": event, "timeout_ms": 20000},
                      {"do": "sleep", "ms": 50},
                      {"do": "fault", "kind": lose[0], "class": "c02s%d%s" % (sid, lose[1])},
                      {"do": "await", "caller": "T", "timeout_ms": 118000 if slow else 0}]
        else:
            steps.append({"do": "control", "env": "e1", "op": OPS[event], "timeout_ms": 115000 if slow else 0})
    steps += [{"do": "settle", "ms": 40}, {"do": "snapshot"}]
    s = {"id": sid, "family": "C02", "agents": cs.DEFAULT_AGENTS, "files": files, "core": {}, "scripts": scripts, "hooks": {},
         "steps": steps, "model": model}
    if hung or slow:
        s["isolated"] = True
    return s


def run(ctx):
    quick = ctx.tier == "quick"
    ctx.assumptions += [
        "Mesos master, agents and executors are simulated (protocol subset the core uses); executors answer per script",
        "a silent target costs the code's real 90 s response timeout: two such scenarios run (in parallel processes) per tier",
    ]
    ctx.rule = ("case = (tasks present, criticality, event, per-task outcome) enumerated by TLC from TaskTransition's initial states; "
                "each is run on the real core via gRPC; non-trivial = at least one non-ok outcome or an empty workflow")
    # 1. exhaustive model
    ctx.model_check("TaskTransition", None, cfg_text=cfg_model(ctx, "{t1, t2, t3}" if not quick else "{t1, t2}"))
    # 2. cases from TLC
    r = ctx.tlc("TaskTransitionGen", None, workers=1, cfg_text=cfg_gen(ctx, '{"t1", "t2"}' if quick else '{"t1", "t2", "t3"}'))
    cases = r.records("CASE")
    if not cases:
        ctx.save_debug(r, "gen.txt")
        raise vlib.Inconclusive("no cases generated: " + vlib.tail(r.out))
    scenarios = []
    sid = 0
    for c in cases:
        present, crit, event, outcome, verdict = c[1]["$set"], c[2], c[3], c[4], c[5]
        if not quick and len(present) == 3:
            # three tasks: keep the cases where some outcome is non-ok and sample by seed
            nonok = [t for t in present if outcome[t] != "ok"]
            if not nonok or (hash((tuple(sorted(outcome.items())), event, ctx.seed)) % 6) != 0:
                continue
        sid += 1
        scenarios.append(scenario(sid, present, crit, event, outcome, verdict))
    # a target that never answers: costs the code's real 90 s response timeout, run in processes of their own
    # (the verdict expected by the property and the one predicted by the model are computed by TLC in trace validation)
    for (c1, c2) in ([(True, True), (False, True)] if quick else [(True, True), (False, True), (True, False)]):
        sid += 1
        scenarios.append(scenario(sid, ["t1", "t2"], {"t1": c1, "t2": c2}, "START", {"t1": "silent", "t2": "ok"}, "fail" if c1 else "ok"))
    # the executor (or agent) of a critical target that has not answered is reported lost while the command is in flight:
    # the target still "cannot be reached or does not answer" (same 90 s, same isolated processes)
    for kind in (["EXECUTOR_LOST"] if quick else ["EXECUTOR_LOST", "AGENT_LOST"]):
        sid += 1
        scenarios.append(scenario(sid, ["t1", "t2"], {"t1": True, "t2": True}, "START", {"t1": "silent", "t2": "ok"}, "fail", lose=(kind, "t1")))
    # the request arrives in the middle of the reaction to the loss of a critical task's executor / agent
    for kind in ("EXECUTOR_LOST", "AGENT_LOST"):
        for ev in (("START", "STOP") if quick else ("START", "STOP", "RESET")):
            sid += 1
            scenarios.append(scenario(sid, ["t1", "t2"], {"t1": True, "t2": True}, ev, {"t1": "unsendable", "t2": "ok"}, "fail", lost_before=(kind, "t1")))
    # non-critical tasks that died before the request: they are not commanded; with none left there is nothing to command
    for (cr, dd) in [({"t1": False, "t2": False}, ("t1",)), ({"t1": False, "t2": False}, ("t1", "t2")), ({"t1": True, "t2": False}, ("t2",))]:
        for ev in ("CONFIGURE", "START", "STOP", "RESET"):
            sid += 1
            scenarios.append(scenario(sid, ["t1", "t2"], cr, ev, {"t1": "ok", "t2": "ok"}, "ok", dead=dd))
    # a CRITICAL task that died a moment before the request (the environment's own reaction to its death waits 0.5 s)
    for ev in ("START", "STOP", "RESET"):
        sid += 1
        scenarios.append(scenario(sid, ["t1", "t2"], {"t1": True, "t2": True}, ev, {"t1": "ok", "t2": "ok"}, "fail", dead=("t1",)))
    # task roles generated by an iterator keep what the template says about criticality
    for c in (True, False):
        for ev in ("CONFIGURE", "START", "STOP", "RESET"):
            sid += 1
            scenarios.append(scenario(sid, ["t1", "t2"], {"t1": c, "t2": c}, ev, {"t1": "err_src", "t2": "ok"}, "fail" if c else "ok", iterated=True))
    # timing variant: the acknowledgements overtake the return of the send call
    for ev in ("CONFIGURE", "START", "STOP", "RESET"):
        for out in ({"t1": "ok", "t2": "ok"}, {"t1": "err_src", "t2": "ok"}):
            sid += 1
            scenarios.append(scenario(sid, ["t1", "t2"], {"t1": True, "t2": True}, ev, out, "ok" if out["t1"] == "ok" else "fail", early=True))
    ctx.log("cases from TLC: %d, scenarios: %d" % (len(cases), len(scenarios)))
    by_id = {s["id"]: s for s in scenarios}
    for s in scenarios:
        m = s["model"]
        ctx.count_case(json.dumps(m, sort_keys=True), nontrivial=any(t["outcome"] != "ok" for t in m["tasks"]) or not m["tasks"])
    ctx.exhaustive = quick
    # 3. run on the real core, 4. validate
    lines = cs.run_scenarios(ctx, scenarios)
    judge(ctx, scenarios, lines)


def replay(ctx, obj):
    s = obj["scenario"]
    judge(ctx, [s], cs.run_scenarios(ctx, [s]))


def judge(ctx, scenarios, lines):
    by_id = {s["id"]: s for s in scenarios}
    keep = {"Reset", "Api", "ApiReply", "MMessage", "Snapshot", "End"}

    def proj(ln):
        if ln["ev"] not in keep:
            return None
        if ln["ev"] == "Snapshot":
            return {"ev": "Snapshot", "scn": ln["scn"], "envs": [{"env": e["env"], "st": e["st"]} for e in ln["envs"]]}
        if ln["ev"] == "ApiReply":
            return {k: ln.get(k, "") for k in ("ev", "scn", "call", "op", "code", "st", "timeout")}
        if ln["ev"] == "Api":
            return {k: ln.get(k, "") for k in ("ev", "scn", "call", "op")}
        if ln["ev"] == "MMessage":
            # a command to a task of an EARLIER scenario's environment (its teardown, arriving late under load) is not a command
            # of the request under test: the class name carries the scenario it belongs to
            m = re.search(r"s([0-9]+)", str(ln.get("class", "")))
            if m and int(m.group(1)) != ln["scn"] and int(m.group(1)) in by_id:
                return None
            return {k: ln.get(k, "") for k in ("ev", "scn", "event", "class", "outcome", "task")}
        return ln
    tf = cs.write_trace(ctx, lines, keep=proj)
    ctx.sample({"scenario_model": scenarios[min(5, len(scenarios) - 1)]["model"], "steps": scenarios[min(5, len(scenarios) - 1)]["steps"]})
    ctx.sample({"trace_prefix": [l for l in lines if l.get("scn") == scenarios[0]["id"]][:8]})
    # 4. validate
    viol, drift, tr = ctx.validate("TaskTransitionTrace", None, tf, cfg_text=cfg_trace(ctx))
    ctx.traces = len(scenarios)
    ctx.extra["trace_lines"] = len(lines)
    for d in drift:
        ctx.drift.append({"scn": d[1], "line": d[2], "obs_pred": d[3], "model": by_id.get(d[1], {}).get("model")})
    seen = set()
    for v in viol:
        inv, scn = v[1], v[2]
        if (inv, scn) in seen:
            continue
        seen.add((inv, scn))
        m = by_id.get(scn, {}).get("model", {})
        tasks = m.get("tasks", [])
        bad = [t for t in tasks if t["outcome"] != "ok"]
        sig = {"inv": inv, "scn": scn, "event": m.get("event"), "ntasks": len(tasks), "ndead": sum(1 for t in tasks if t.get("dead")),
               "dead_critical": any(t.get("dead") and t["crit"] for t in tasks),
               "critical_failed": any(t["crit"] for t in bad), "noncritical_failed": any(not t["crit"] for t in bad)}
        ctx.add_violation(sig, replay_obj={"scenario": by_id.get(scn), "trace": [l for l in lines if l.get("scn") == scn]})
