"""X04 - beyond the listed properties: the run lifecycle the TRG integration plugin drives on the trigger service
(core/integration/trg: plugin.go CallStack PrepareForRun / RunLoad / RunStart / RunStop / RunUnload / Cleanup, the bookkeeping
pendingRunStops / pendingRunUnloads, the polling goroutine queryRunList -> cachedStatus -> reconcile(), trgutil.go parseRunList,
GetData / GetEnvironmentsData) and the trigger service's own run table.

Model: spec/TrgRun.tla, one action per gRPC call (service failure = a separate outcome of that action), exhaustive with TLC.
Properties (DESIGN.md appendix C, X04): a run is not stopped again once the plugin has seen it stopped; hooks send RunStop/RunUnload
only for a pending run; RunLoad/RunUnload never for standalone runs; reconcile never touches the current run of an environment;
the pending maps are exactly the service's view while no request failed; after a Cleanup whose calls succeeded nothing of the
environment is left; what a failed stop leaves in the service stays pending; a successful poll caches the service's list;
GetEnvironmentsData answers for the environments that have a run.  The repaired design (all Code_* = FALSE) satisfies all of them;
for the code as it is (Code_* = TRUE) TLC refutes some, each refutation is replayed on the real plugin and reported as an
OBSERVATION when the recorded run shows it (never as a violation: a model-only result is no verdict).

Binding: behaviours of the model (tlc -simulate on spec/TrgRunGen.tla, seeded, plus TLC's counterexamples) run on the REAL plugin
(harness/cmd/trgrun: trg.NewPlugin + Init against an in-process fake CTP gRPC server in which every request parks until the scenario
lets it take effect with the scripted fault; the hooks are the plugin's own CallStack functions invoked with real *callable.Call
values; reconcile() reads the real environment.ManagerInstance()); every request, the pending maps, GetData, GetEnvironmentsData,
the service's table and the poller's next request are recorded and validated by TLC against spec/TrgRunTrace.tla in one pass:
strict conformance (DRIFT) and the properties as soft invariants on the recorded facts (VIOL).

Not a listed property: not registered in MANIFEST.json; evidence goes to evidence/extra/X04.json."""
import json
import os
import shutil
import subprocess
import time

import vlib

LEVEL = "model_checking"

CODE = ["Code_StopHookUnconditional", "Code_CleanupForgetsFirst", "Code_OnePendingPerEnv", "Code_ReconcileStaleList",
        "Code_ReconcileIgnoresRc", "Code_ReconcileKeepsPending", "Code_ListParserDropsSpaced", "Code_EnvDataInverted"]
HOLD = "TypeOK StandaloneNeverLoaded ReconcileSparesActive PendingExact PendingJustified"
ALL = (HOLD + " NoStopAfterStopped NoHookStopAfterStopped NoReconcileStopAfterStopped StopOnlyPending ReconcileUnloadsStoppedOnly "
       "CleanupLeavesNothing CleanupLeavesNothingOfLastRun NothingForgotten NothingForgottenButByCleanup CacheFaithful EnvDataMeaningful")

# deviation of the code -> (the targeted property TLC refutes for the code as it is, what to say)
DEV = {
    "Code_StopHookUnconditional": ("StopOnlyPending",
        "the RunStop / RunUnload hooks do not consult pendingRunStops / pendingRunUnloads: after a RunStart that failed (non-critical "
        "hook) the stop hook still sends RunStop for run_number, which the service refuses"),
    "Code_CleanupForgetsFirst": ("CleanupLeavesNothingOfLastRun",
        "Cleanup deletes the pending entry before the call and ignores the outcome: when the RunStop / RunUnload of a Cleanup fails the "
        "run stays RUNNING / LOADED in the trigger service, the plugin has forgotten it and a second Cleanup does nothing (reconcile "
        "spares it as long as the environment, in ERROR, keeps its run number)"),
    "Code_OnePendingPerEnv": ("NothingForgottenButByCleanup",
        "the pending maps hold one run per environment: after a failed (non-critical) RunStop the next run of the environment overwrites "
        "the entry, and Cleanup of the environment leaves the older run RUNNING (only reconcile can still stop it)"),
    "Code_ReconcileStaleList": ("NoReconcileStopAfterStopped",
        "reconcile acts on the list cached by the last poll: a run the environment stopped, unloaded and left while the RunList reply "
        "was under way is sent RunStop (and RunUnload) a second time"),
    "Code_ReconcileIgnoresRc": ("ReconcileUnloadsStoppedOnly",
        "reconcile checks only the gRPC error of its RunStop (the code's own TODO): after a stop the service refused (rc != 0) it goes on "
        "to RunUnload the still RUNNING global run"),
    "Code_ReconcileKeepsPending": ("NoHookStopAfterStopped",
        "reconcile does not update the pending maps: a run whose stop hook failed and which reconcile has stopped since stays in "
        "pendingRunStops, and the environment's Cleanup sends RunStop for it again"),
    "Code_ListParserDropsSpaced": ("CacheFaithful",
        "parseRunLine splits at white space before it splits the detector list at commas: with the documented format "
        "'G 2224 L  its, tpc  run2224' the fourth column is 'its,' and the line is dropped - global runs with more than one detector "
        "are invisible to the status cache and are never reconciled"),
    "Code_EnvDataInverted": ("EnvDataMeaningful",
        "GetEnvironmentsData tests `!ok`: it answers (with an empty Run) exactly for the environments that have NO entry in "
        "cachedStatus.EnvMap and is silent for those that have one"),
}


def cfg_model(envs, globalsets, maxrun, maxfaults, kinds, spaced, code, invs, spec="Spec"):
    """code: True/False for all constants, or a dict constant -> bool."""
    c = {k: (code if isinstance(code, bool) else code.get(k, True)) for k in CODE}
    return ("SPECIFICATION %s\nCONSTANTS\n  Envs = %s\n  GlobalSets = %s\n  MaxRun = %d\n  MaxFaults = %d\n  FaultKinds = %s\n"
            "  SpacedChoices = %s\n%s%sCHECK_DEADLOCK FALSE\n"
            % (spec, envs, globalsets, maxrun, maxfaults, kinds, spaced,
               "".join("  %s = %s\n" % (k, "TRUE" if v else "FALSE") for k, v in c.items()),
               ("INVARIANTS %s\n" % invs) if invs else ""))


E1 = '{"e1"}'
E2 = '{"e1", "e2"}'
KINDS = '{"rc", "err", "lost"}'


def split_witnesses(out):
    """Output of `tlc -continue`: {invariant: [behaviour, ...]}, one behaviour per reported violation."""
    import re
    import tlaval
    parts = re.split(r"(?m)^Error: Invariant ([A-Za-z0-9_]+) is violated\.", out)
    res = {}
    for k in range(1, len(parts), 2):
        beh = tlaval.parse_counterexample(parts[k + 1])
        if beh:
            res.setdefault(parts[k], []).append(beh)
    return res


def tlc_parallel(ctx, jobs, par=6, workers=2, timeout=900):
    """Run several exhaustive TLC jobs side by side (each in its own scratch directory). jobs: list of (label, module, cfg_text, flags).
    Returns {label: TlcResult}; accounts states / model_runs like ctx.model_check."""
    res = {}
    pend = list(jobs)
    running = []
    e = dict(os.environ)
    e["JAVA_TOOL_OPTIONS"] = (e.get("JAVA_TOOL_OPTIONS", "") + " -Xss64m -Xmx4g").strip()
    try:
        return _tlc_parallel(ctx, pend, running, res, e, par, workers, timeout)
    finally:
        for it in running:      # an error above: do not leave the other jobs behind (timeout forwards the signal to TLC)
            it[2].terminate()
        for it in running:
            try:
                it[2].wait(timeout=30)
            except subprocess.TimeoutExpired:
                it[2].kill()
            it[3].close()


def _tlc_parallel(ctx, pend, running, res, e, par, workers, timeout):
    while pend or running:
        while pend and len(running) < par:
            label, module, cfg, flags = pend.pop(0)
            ctx.ntlc += 1
            d = os.path.join(ctx.work, "tlc%d" % ctx.ntlc)
            os.makedirs(d)
            for f in ("TrgRun.tla", "TrgRunGen.tla"):
                shutil.copy(os.path.join(vlib.SPEC, f), d)
            with open(os.path.join(d, "run.cfg"), "w") as fh:
                fh.write(cfg)
            out = open(os.path.join(d, "out.txt"), "w")
            p = subprocess.Popen(["timeout", str(timeout), "tlc", "-workers", str(workers), "-metadir", os.path.join(d, "md"),
                                  "-config", "run.cfg"] + flags + [module + ".tla"], cwd=d, env=e, stdout=out, stderr=subprocess.STDOUT)
            running.append((label, module, p, out, d, time.time()))
        time.sleep(0.2)
        for it in list(running):
            label, module, p, out, d, t0 = it
            if p.poll() is None:
                continue
            running.remove(it)
            out.close()
            with open(os.path.join(d, "out.txt")) as fh:
                text = fh.read()
            r = vlib.TlcResult(text, p.returncode, time.time() - t0)
            r.dir = d
            if p.returncode == 124:
                raise vlib.Inconclusive("TLC timeout after %ss on %s (%s)" % (timeout, module, label))
            if "java.lang.OutOfMemoryError" in text or "StackOverflowError" in text:
                raise vlib.Inconclusive("TLC resource failure on %s (%s)" % (module, label))
            if r.crashed or (r.generated == 0 and not r.violated):
                ctx.save_debug(r, "tlc_%s_%s.txt" % (module, label))
                raise vlib.Inconclusive("TLC failed on %s (%s, rc=%d): %s" % (module, label, r.rc, vlib.tail(r.out)))
            ctx.states += r.distinct
            ctx.transitions += r.generated
            result = ("violated:" + ",".join(sorted(set(r.violated))) if r.violated else
                      ("ok" if r.no_error else ("deadlock" if r.deadlock else "?")))
            ctx.model_runs.append({"module": module, "cfg": label, "distinct": r.distinct, "generated": r.generated, "result": result,
                                   "wall_s": round(r.wall, 1)})
            ctx.log("model %s/%s: %d distinct, %d generated, %s (%.1fs)" % (module, label, r.distinct, r.generated, result, r.wall))
            res[label] = r
    return res


# ---------- behaviours -> scenarios ----------
HOOKS = {"Prepare": "PrepareForRun", "LoadHook": "RunLoad", "StartHook": "RunStart", "StopHook": "RunStop", "UnloadHook": "RunUnload",
         "CleanupFirst": "Cleanup", "CleanupNext": "Cleanup"}


def q(s):
    return s.strip().strip('"')


def beh_to_scenario(sid, beh, origin):
    """beh: list of (action, args, state) with the initial state first."""
    st0 = beh[0][2]
    glob = {"e1": False, "e2": False}
    for k, v in (st0.get("glob") or {}).items():
        glob[q(k)] = bool(v)
    steps = []
    for (name, args, st) in beh[1:]:
        name = name[2:] if name.startswith("G_") else name
        a = [q(x) for x in args]
        if name in HOOKS:
            steps.append({"k": "hook", "e": a[0], "fn": HOOKS[name], "f": a[1], "c": a[2] if len(a) > 2 else "go"})
        elif name == "NewRun":
            rn = st.get("rn") or {}
            r = rn.get(a[0], rn.get('"%s"' % a[0]))
            steps.append({"k": "ecs", "e": a[0], "fn": "NewRun", "r": int(r)})
        elif name in ("EndRun", "GoError", "Destroy"):
            steps.append({"k": "ecs", "e": a[0], "fn": name})
        elif name == "PollQuery":
            steps.append({"k": "pollq", "f": a[0]})
        elif name == "PollReply":
            steps.append({"k": "pollr"})
        elif name in ("RecStop", "RecUnload"):
            steps.append({"k": "rec", "f": a[0]})
        else:
            raise vlib.Inconclusive("behaviour with an action the harness cannot impose: %s" % name)
    return {"id": sid, "glob": glob, "spaced": bool(st0.get("spaced", False)), "steps": steps, "origin": origin}


def nontrivial(s):
    return any(st.get("f", "none") != "none" or st["k"] in ("pollr", "rec") for st in s["steps"])


def canon(s):
    return json.dumps([s["glob"], s["spaced"], s["steps"]], sort_keys=True)


def cfg_trace(maxrun):
    return cfg_model(E2, "{{}}", maxrun, 1000000, KINDS, "{FALSE}", True, None, spec="TraceSpec") + "INVARIANT PrintEnd\n"


def execute(ctx, binp, scenarios, name, shards=1):
    """Run the scenarios on the real plugin (shards processes side by side); returns the recorded lines in scenario order."""
    parts = [scenarios[i::shards] for i in range(shards)]
    procs = []
    for i, part in enumerate(parts):
        if not part:
            continue
        sf, tf = ctx.path("scn_%s_%d.ndjson" % (name, i)), ctx.path("run_%s_%d.ndjson" % (name, i))
        ctx.write_ndjson(sf, [{k: v for k, v in s.items() if k != "origin"} for s in part])
        procs.append((subprocess.Popen([binp, "-scenarios", sf, "-trace", tf], cwd=ctx.work, stdout=subprocess.PIPE,
                                       stderr=subprocess.STDOUT, text=True), tf))
    lines = []
    for p, tf in procs:
        try:
            out, _ = p.communicate(timeout=1500)
        except subprocess.TimeoutExpired:
            p.kill()
            raise vlib.Inconclusive("trgrun timeout")
        if p.returncode != 0:
            raise vlib.Inconclusive("trgrun failed rc=%d: %s" % (p.returncode, vlib.tail(out, 20)))
        ctx.log("trgrun %s: %s" % (name, out.strip()))
        lines += ctx.read_ndjson(tf)
    return lines


def judge(ctx, scenarios, lines, what):
    """One TLC pass over the recorded lines; returns (viol, drift, obs records)."""
    for ln in lines:
        ln.pop("seq", None)
    tf = ctx.path("trace_%s.ndjson" % what)
    ctx.write_ndjson(tf, lines)
    maxrun = max([st.get("r", 0) for s in scenarios for st in s["steps"]] + [1]) + 1
    viol, drift, r = ctx.validate("TrgRunTrace", None, tf, cfg_text=cfg_trace(maxrun), timeout=1500)
    return viol, drift, r.records("OBS")


def report(ctx, scenarios, lines, viol, drift):
    by_id = {s["id"]: s for s in scenarios}

    def trace_of(sid):
        return [x for x in lines if x.get("scn") == sid]

    for d in drift:
        ctx.drift.append({"scn": d[1], "line": d[2], "origin": (by_id.get(d[1]) or {}).get("origin"), "detail": str(d[3])[:300]})
    told = set()
    for v in viol:
        sid = v[2]
        if (v[1], sid) in told:     # one report per property and scenario
            continue
        told.add((v[1], sid))
        ctx.add_violation({"inv": v[1], "scn": sid, "line": v[3], "origin": (by_id.get(sid) or {}).get("origin"), "detail": str(v[4])[:300]},
                          replay_obj={"scenario": by_id.get(sid), "trace": trace_of(sid)})


def attribute(obs):
    """OBS record of the trace specification -> the deviation it shows."""
    name, detail = obs[1], obs[4]
    if name == "NoStopAfterStopped":
        return "Code_ReconcileStaleList" if detail[0] == "poll" else "Code_ReconcileKeepsPending"
    if name == "StopOnlyPending":
        return "Code_StopHookUnconditional"
    if name == "ReconcileUnloadsStoppedOnly":
        return "Code_ReconcileIgnoresRc"
    if name == "CacheFaithful":
        return "Code_ListParserDropsSpaced"
    if name == "EnvDataMeaningful":
        return "Code_EnvDataInverted"
    if name == "CleanupLeavesNothing":
        left, cfail = detail[1], detail[2]
        return "Code_CleanupForgetsFirst" if any(r in cfail for r in left) else "Code_OnePendingPerEnv"
    if name == "NothingForgotten":
        return "Code_OnePendingPerEnv"
    if name == "NothingForgottenByCleanup":
        return "Code_CleanupForgetsFirst"
    return None


def run(ctx):
    quick = ctx.tier == "quick"
    ctx.assumptions += [
        "the trigger service is the fake CTP of harness/cmd/trgrun: RunLoad of an unknown run -> LOADED (global); RunStart with detector "
        "\"\" of a LOADED global run / naming a detector for an unknown run -> RUNNING; RunStop of a RUNNING run (global -> LOADED, "
        "standalone -> gone); RunUnload of a LOADED global run -> gone; anything else is refused with rc != 0; faults: rc != 0 without "
        "effect, gRPC error without effect, gRPC error after the effect (lost reply)",
        "the environment calls the hooks in the documented order (docs/handbook/operation_order.md); a failed hook either lets the "
        "transition go on or sends the environment to ERROR; Cleanup is called after the stop hook, in CONFIGURED and in ERROR",
        "trg_global_run_enabled is \"true\" (two detectors) or \"false\" (one detector); run numbers are never reused",
        "the pending maps and the environment manager's map are read / written by reflection in the driver (no hook in /repo); "
        "requests of one goroutine at a time are in motion (the maps are not protected by a lock in the plugin: concurrent hooks and "
        "the poller racing on them are outside this model)",
    ]
    ctx.rule = ("scenario = a behaviour of TrgRunGen (tlc -simulate, seeded) or a TLC counterexample of TrgRun, run step by step on the "
                "real plugin; non-trivial = contains an injected fault, a delivered RunList reply or a reconciliation request; distinct = "
                "distinct (configuration, step sequence)")

    # ---------- 1. exhaustive ----------
    # the code as it is: the properties that hold are invariants of the whole state space; each property TLC refutes is wrapped
    # (W_*: fails once per worker, then silent) so that the same run (tlc -continue) yields a counterexample for every one of them
    wit = " ".join("W_" + inv for (inv, _w) in DEV.values())
    g1 = '{{}, {"e1"}}'
    jobs = [("asis-1env", "TrgRun", cfg_model(E1, g1, 2, 1 if quick else 2, KINDS, "{FALSE, TRUE}", True, HOLD + " " + wit), ["-continue"]),
            ("repaired-1env", "TrgRun", cfg_model(E1, g1, 2, 1 if quick else 2, KINDS, "{FALSE, TRUE}", False, ALL), [])]
    if quick:
        jobs.append(("asis-2env-nofault", "TrgRun", cfg_model(E2, '{{"e1"}}', 2, 0, "{}", "{FALSE}", True, HOLD), []))
    else:
        jobs.append(("asis-2env", "TrgRun", cfg_model(E2, '{{"e1"}}', 2, 1, KINDS, "{FALSE}", True, HOLD), []))
        jobs.append(("asis-1env-3runs", "TrgRun", cfg_model(E1, g1, 3, 1, KINDS, "{FALSE}", True, HOLD), []))
        jobs.append(("repaired-2env", "TrgRun", cfg_model(E2, '{{"e1"}}', 2, 1, KINDS, "{FALSE}", False, ALL), []))
        for dev, (inv, _what) in DEV.items():
            # the deviation is the only cause: with it repaired (the others as they are) its property holds
            sp = "{TRUE}" if dev == "Code_ListParserDropsSpaced" else "{FALSE}"
            jobs.append(("only:" + dev, "TrgRun", cfg_model(E1, g1, 2, 2, KINDS, sp, {dev: False}, inv), []))
    res = tlc_parallel(ctx, jobs, par=3 if quick else 6, workers=4, timeout=1500)
    for label, r in res.items():
        bad = [v for v in r.violated if not (label == "asis-1env" and v.startswith("W_"))]
        if bad or r.deadlock or (label != "asis-1env" and not r.no_error):
            ctx.save_debug(r, "tlc_TrgRun_%s.txt" % label.replace(":", "_"))
            raise vlib.Inconclusive("model check %s: %s - the specification does not describe what it claims" %
                                    (label, ",".join(bad) or vlib.tail(r.out, 5)))
    witnesses = split_witnesses(res["asis-1env"].out)
    for dev, (inv, _what) in DEV.items():
        if not witnesses.get("W_" + inv):
            raise vlib.Inconclusive("the model of the code as it is no longer refutes %s (%s): the specification changed?" % (inv, dev))
    ctx.extra["refuted_as_is"] = sorted(inv for (inv, _w) in DEV.values())

    # ---------- 2. scenarios ----------
    scenarios, seen = [], set()

    def add(s):
        k = canon(s)
        if k in seen or not s["steps"]:
            return None
        seen.add(k)
        s["id"] = len(scenarios) + 1
        scenarios.append(s)
        return s["id"]

    cex_of = {}
    for dev, (inv, _what) in DEV.items():
        for beh in sorted(witnesses["W_" + inv], key=len)[:2]:
            sid = add(beh_to_scenario(0, beh, "model-counterexample:%s" % inv))
            if sid:
                cex_of.setdefault(dev, set()).add(sid)
    nsim = 250 if quick else 4000
    gen = cfg_model(E2, '{{}, {"e1"}, {"e2"}, {"e1", "e2"}}', 3, 2, KINDS, "{FALSE, TRUE}", True, None, spec="GenSpec")
    for b in ctx.simulate("TrgRunGen", None, nsim, 45, cfg_text=gen, seed=ctx.seed * 7919 + 11):
        add(beh_to_scenario(0, b, "generated"))
    for s in scenarios:
        ctx.count_case(canon(s), nontrivial=nontrivial(s))

    # ---------- 3. run on the real plugin, 4. validate ----------
    binp = ctx.build("trgrun")
    lines = execute(ctx, binp, scenarios, "all", shards=1 if quick else 6)
    ctx.traces = len(scenarios)
    ctx.exhaustive = False
    first = scenarios[0]
    ctx.sample({"scenario": first, "trace": [x for x in lines if x.get("scn") == first["id"]][:14]})
    viol, drift, obs = judge(ctx, scenarios, lines, "all")
    report(ctx, scenarios, lines, viol, drift)

    if not quick:
        stress(ctx, binp, 300000)

    # ---------- 5. what TLC refutes for the code as it is, reproduced on the real plugin ----------
    shown = {}
    for o in obs:
        dev = attribute(o)
        if dev:
            shown.setdefault(dev, set()).add(o[2])
    ctx.extra["deviations_reproduced"] = {d: len(v) for d, v in shown.items()}
    drifted = {d["scn"] for d in ctx.drift}
    for dev, (inv, what) in DEV.items():
        hit = shown.get(dev, set()) - drifted
        cex_hit = bool(cex_of.get(dev, set()) & hit)
        ctx.observations.append(
            "%s: %s (model: %s refuted for the code as it is, satisfied by the repaired design; %s on the real plugin: %d recorded "
            "scenario(s) show it%s)" % (dev, what, inv, "reproduced" if hit else "NOT reproduced", len(hit),
                                        ", among them TLC's counterexample" if cex_hit else ""))


def stress(ctx, binp, cycles):
    """Outside the model: hooks and the poller racing on the unprotected pending maps (observation only)."""
    try:
        p = subprocess.run([binp, "-stress", str(cycles)], cwd=ctx.work, stdout=subprocess.PIPE, stderr=subprocess.STDOUT, text=True,
                           timeout=600)
    except subprocess.TimeoutExpired:
        ctx.log("stress run timed out (no observation)")
        return
    fatal = [ln for ln in p.stdout.splitlines() if ln.startswith("fatal error: concurrent map")]
    in_plugin = "trg.(*Plugin).queryRunList" in p.stdout or "trg.(*Plugin).CallStack" in p.stdout
    ctx.extra["stress"] = {"cycles": cycles, "rc": p.returncode, "fatal": fatal[:1]}
    ctx.log("stress: rc=%d %s" % (p.returncode, fatal[:1] or vlib.tail(p.stdout, 1)))
    if fatal and in_plugin:
        ctx.observations.append(
            "outside the model (which moves one goroutine at a time): pendingRunStops / pendingRunUnloads are plain maps shared by the "
            "hook calls (writers) and the polling goroutine (queryRunList iterates them) without a lock; with the poller polling every "
            "10 us while one environment cycles through RunLoad/RunStart/RunStop/RunUnload the Go runtime aborted the process with '%s' "
            "(stack in trg.(*Plugin).queryRunList) - in the core this is a crash of the whole process" % fatal[0])
    elif p.returncode == 0:
        ctx.observations.append(
            "outside the model: pendingRunStops / pendingRunUnloads are shared by the hook calls and the polling goroutine without a "
            "lock; %d run cycles with a 10 us poller did not make the Go runtime detect it this time" % cycles)


def replay(ctx, obj):
    s = obj["scenario"]
    if not s:
        raise vlib.Inconclusive("replay object without a scenario")
    binp = ctx.build("trgrun")
    lines = execute(ctx, binp, [s], "replay")
    viol, drift, _obs = judge(ctx, [s], lines, "replay")
    ctx.traces = 1
    report(ctx, [s], lines, viol, drift)
