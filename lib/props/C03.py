"""C03 - failure of a critical task drives a live environment to ERROR.

Model: spec/Failure.tla (exhaustive, safety + liveness under weak fairness of the pipeline).
Scenarios: spec/FailureGen.tla (the model driven the way the harness drives the core: gates, the
racing API transition, faults) enumerated by TLC, plus the counterexamples TLC finds for every
open deviation.  Each scenario runs on the real core through the whole-core simulation (faults
injected by the simulated Mesos master, racing instants realised with gates on hook points) and
the recorded runs are validated by TLC against spec/FailureTrace.tla.
"""
import json
import random
import re

import coresim as cs
import vlib

DEVS = {"Code_NotifyLossy": "error-notification-dropped",
        "Code_SubscribeIgnoresError": "watcher-subscribes-in-error",
        "Code_InternalErrorIgnoresCriticality": "internal-error-noncritical-stops-run",
        "Code_InternalErrorIgnoredWhenConfigured": "internal-error-ignored-unless-running",
        "Code_ForcedErrorSkipsRunEnd": "forced-error-no-run-end"}
ALLKINDS = ["TASK_FAILED", "TASK_LOST", "TASK_KILLED", "TASK_FINISHED", "EXECUTOR_LOST", "AGENT_LOST", "INTERNAL_ERROR"]
AGENTS = [{"ID": "a%d" % i, "Host": "h%d" % i, "Attrs": {"machine_id": "h%d" % i}, "CPUs": 16, "Mem": 16384,
           "Ports": [[9000, 9200], [30000, 30200]]} for i in (1, 2, 3)]
ALLVIAS = ("direct", "recon", "master", "masterrecon")
NOT_IE = ["TASK_FAILED", "TASK_LOST", "TASK_KILLED", "EXECUTOR_LOST", "AGENT_LOST"]
ANYSTATE = ["STANDBY", "DEPLOYED", "CONFIGURED", "RUNNING", "ERROR", "DONE", "GONE", "MIXED"]
OPS = {"START": "START_ACTIVITY", "STOP": "STOP_ACTIVITY"}


def tla_set(xs):
    return "{" + ", ".join('"%s"' % x for x in xs) + "}"


def consts(ctx, ntasks=2, faults=1, racing=False, kinds=ALLKINDS, layouts=("own", "shared"), states=("CONFIGURED", "RUNNING"),
           watch=("select", "unsub", "busy"), hooks=("none",), devs=None, strict=False, fine=False, stale=0, mup=0, extras=None,
           reuse=(False,), vias=("direct", "recon")):
    d = {c: ctx.deviation_open(k) for c, k in DEVS.items()} if devs is None else devs
    lines = ["  NTasks = %d" % ntasks, "  MaxFaults = %d" % faults, "  Racing = %s" % ("TRUE" if racing else "FALSE"),
             "  MaxStale = %d" % stale, "  MaxMup = %d" % mup,
             "  Kinds = %s" % tla_set(kinds), "  Layouts = %s" % tla_set(layouts), "  InitStates = %s" % tla_set(states),
             "  InitWatch = %s" % tla_set(watch), "  GoErrHooks = %s" % tla_set(hooks), "  Vias = %s" % tla_set(vias),
             "  FineChains = %s" % ("TRUE" if fine else "FALSE"), "  Strict = %s" % ("TRUE" if strict else "FALSE")]
    for c in DEVS:
        lines.append("  %s = %s" % (c, "TRUE" if d[c] else "FALSE"))
    if extras is not None:
        lines.append("  Extras = %s" % tla_set(extras))
        lines.append("  ReuseSet = {%s}" % ", ".join("TRUE" if x else "FALSE" for x in reuse))
    return "\n".join(lines)


def cfg_model(ctx, **kw):
    return ("SPECIFICATION Spec\nCONSTANTS\n%s\nINVARIANTS TypeOK RunEndRecorded\nPROPERTIES ErrorReached NonCriticalInert\n"
            "CHECK_DEADLOCK FALSE\n" % consts(ctx, **kw))


def cfg_gen(ctx, **kw):
    kw.setdefault("extras", ("none",))
    return "SPECIFICATION GenSpec\nCONSTANTS\n%s\nINVARIANT PrintCase\nCHECK_DEADLOCK FALSE\n" % consts(ctx, **kw)


def cfg_trace(ctx):
    return "SPECIFICATION TraceSpec\nCONSTANTS\n%s\nINVARIANT PrintEnd\nCHECK_DEADLOCK FALSE\n" % consts(ctx, ntasks=3)


# ---------------------------------------------------------------------------------------------
# scenario = (shape, script) -> steps
# ---------------------------------------------------------------------------------------------
def host_of(layout, i, n):
    if layout == "own":
        return "h%d" % i
    if layout == "shared":
        return "h1"
    return "h2" if i == n else "h1"   # mixed: the last task has an executor of its own


def scenario(sid, shape, script, long_ms, origin="gen"):
    tids = sorted(shape["crit"])
    n = len(tids)
    files, roles, tasks = {}, "", []
    for i, t in enumerate(tids, 1):
        cls = "c03s%d%s" % (sid, t)
        files["tasks/%s.yaml" % cls] = cs.task_class(cls)
        roles += cs.role_task(t, cls, critical=shape["crit"][t], host=host_of(shape["layout"], i, n))
        tasks.append({"id": t, "class": cls, "crit": bool(shape["crit"][t])})
    cls_of = {t["id"]: t["class"] for t in tasks}
    hooks = {}
    if shape["hook"] != "none":
        # a critical call that fails before GO_ERROR: with a negative weight it runs before the end of run is recorded
        # ("after": it fails after GO_ERROR, before the closing run event would be published)
        trig = {"early": "before_GO_ERROR-10", "late": "before_GO_ERROR", "after": "after_GO_ERROR-1"}[shape["hook"]]
        roles += cs.role_call("goerr", "ge%d" % sid, trig, critical=True)
        hooks["ge%d" % sid] = {"outcome": "fail"}
    late = [s for s in script if s[0] == "api" and s[2] == "late"]
    for s in late:
        hk = "l%s%d" % (s[1].lower(), sid)
        roles += cs.role_call("late%s" % s[1].lower(), hk, "after_%s" % OPS[s[1]], critical=False)
    wf = "c03wf%d" % sid
    files["workflows/%s.yaml" % wf] = cs.workflow(wf, roles)
    me = {"env": "e1"}
    observe = {"do": "poll", "env": "e1", "until": ANYSTATE, "timeout_ms": 3000}
    steps = []
    if any(x[0] in ("latereply", "stale") or (x[0] == "api" and len(x) > 2 and x[2] == "owed") for x in script):
        steps += [{"do": "c03track"}]
    wpoint = "env.watch.recv"
    # --- setup: reach the initial state of the model -----------------------------------------
    reused = bool(shape.get("reused"))
    create = [{"do": "create", "env": "e1", "wf": wf}]
    if reused:
        # The tasks are launched for an earlier environment e0, kept at its teardown and claimed by the environment under test
        # (--reuseUnlockedTasks). Creation kills every unlocked task first, so e1's creation is held after that (at
        # envman.create.registered) while e0 is torn down with keepTasks; a claimed task does not report ACTIVE to its new role
        # by itself: the master's TASK_RUNNING update (e.g. an answer to reconciliation) does.
        reg, lockp = "envman.create.registered", "task.lock"
        create = [{"do": "create", "env": "e0", "wf": wf}, {"do": "settle", "ms": 40},
                  {"do": "gate", "point": reg, "match": me}, {"do": "create", "env": "e1", "wf": wf, "caller": "C"},
                  {"do": "waitgate", "point": reg, "timeout_ms": 5000},
                  {"do": "destroy", "env": "e0", "keep_tasks": True}, {"do": "settle", "ms": 60},
                  {"do": "gate", "point": lockp, "match": me}, {"do": "ungate", "point": reg},
                  {"do": "waitgate", "point": lockp, "timeout_ms": 5000}, {"do": "ungate", "point": lockp}, {"do": "settle", "ms": 60}]
        create += [{"do": "masterupdate", "class": t["class"], "kind": "full"} for t in tasks]
        create += [{"do": "await", "caller": "C", "timeout_ms": 20000}]
    if shape["watch"] == "unsub":
        wpoint = "env.watch.start"
        steps += [{"do": "gate", "point": wpoint, "match": me}] + create + [
                  {"do": "waitgate", "point": wpoint, "timeout_ms": 5000}, {"do": "settle", "ms": 40}]
    else:
        steps += create + [{"do": "settle", "ms": 40}]
        if shape["watch"] == "busy":
            # the watcher parks while it handles the notification of the preceding transition
            steps += [{"do": "gate", "point": wpoint, "match": me}, {"do": "control", "env": "e1", "op": "START_ACTIVITY"},
                      {"do": "waitgate", "point": wpoint, "timeout_ms": 5000}]
            if shape["state"] == "CONFIGURED":
                steps += [{"do": "control", "env": "e1", "op": "STOP_ACTIVITY"}]
            steps += [{"do": "settle", "ms": 40}]
        elif shape["state"] == "RUNNING":
            steps += [{"do": "control", "env": "e1", "op": "START_ACTIVITY"}, {"do": "settle", "ms": 40}]
    # --- script --------------------------------------------------------------------------------
    txpoint, ncall = None, 0
    crit_hit = False
    marmed = False
    sarmed = False
    for s in script:
        if s[0] == "armw":
            steps += [{"do": "gate", "point": wpoint, "match": me}]
        elif s[0] == "api":
            ncall += 1
            caller = "A%d" % ncall
            if s[2] == "owed":
                # the simulated executor withholds this task's answer: the transition stays in progress and the task owes it
                ev = s[1]
                steps += [{"do": "script", "rule": {"class": cls_of[s[3]], "event": ev, "outcome": "silent", "times": 1}},
                          {"do": "control", "env": "e1", "op": OPS[s[1]], "caller": caller},
                          {"do": "waitcmd", "class": cls_of[s[3]], "op": ev, "timeout_ms": 5000}, {"do": "settle", "ms": 40}]
                continue
            if s[2] == "early":
                txpoint = "env.lock.acquired"
                steps += [{"do": "gate", "point": txpoint, "match": {"env": "e1", "what": OPS[s[1]]}}]
            else:
                txpoint = "probe:g%d" % sid
                steps += [{"do": "hookscript", "hook": "l%s%d" % (s[1].lower(), sid), "behaviour": {"outcome": "ok", "gate": "g%d" % sid}},
                          {"do": "gate", "point": txpoint}]
            steps += [{"do": "control", "env": "e1", "op": OPS[s[1]], "caller": caller},
                      {"do": "waitgate", "point": txpoint, "timeout_ms": 5000}, {"do": "settle", "ms": 40}]
        elif s[0] == "fault":
            cls = cls_of[s[2]]
            steps += [observe]
            if s[1] == "INTERNAL_ERROR":
                # a task that went to ERROR on its own answers every later command with an error
                steps += [{"do": "script", "rule": {"class": cls, "outcome": "err_error"}}]
            # (a fourth element "recon": the master's answer to a reconciliation request carries the terminal state)
            # "master" / "masterrecon": the update is generated by the master (no uuid, no executor id)
            via = s[3] if len(s) > 3 else "direct"
            steps += [{"do": {"direct": "fault", "recon": "reconfault"}.get(via, "masterfault"), "kind": s[1], "class": cls,
                       "op": "recon" if via == "masterrecon" else ""}]
            if marmed and s[1] != "TASK_FINISHED" and s[1] != "INTERNAL_ERROR":
                steps += [{"do": "waitgate", "point": "wf.taskrole.merged", "timeout_ms": 3000}]
            if sarmed and s[1] in ("TASK_FAILED", "TASK_LOST", "TASK_KILLED"):
                steps += [{"do": "waitgate", "point": "task.state.update", "timeout_ms": 3000},
                          {"do": "waitstatus", "class": cls, "kind": "INACTIVE", "timeout_ms": 3000}]
            steps += [{"do": "settle", "ms": 60}]
            group = [t for i, t in enumerate(tids, 1) if host_of(shape["layout"], i, n) == host_of(shape["layout"], tids.index(s[2]) + 1, n)]
            hit = group if s[1] in ("EXECUTOR_LOST", "AGENT_LOST") else [s[2]]
            crit_hit = crit_hit or any(shape["crit"][t] for t in hit)
        elif s[0] == "releasetx":
            steps += [{"do": "ungate", "point": txpoint}, {"do": "await", "caller": "A%d" % ncall}, {"do": "settle", "ms": 40}]
        elif s[0] == "releasew":
            steps += [{"do": "ungate", "point": wpoint}, {"do": "settle", "ms": 40}]
        elif s[0] == "latereply":
            # the withheld answer arrives now (for a task that died meanwhile: it was on its way)
            steps += [{"do": "latereply", "class": cls_of[s[1]], "kind": "error" if len(s) > 2 and s[2] == "error" else ""},
                      {"do": "await", "caller": "A%d" % ncall, "timeout_ms": 20000},
                      {"do": "settle", "ms": 40}]
        elif s[0] == "stale":
            # a duplicated / late answer of the dead task's last command: a stale healthy state message
            steps += [{"do": "latereply", "class": cls_of[s[1]]}, {"do": "settle", "ms": 60}]
        elif s[0] == "mupdate":
            steps += [{"do": "masterupdate", "class": cls_of[s[1]], "kind": s[2]}, {"do": "settle", "ms": 60}]
        elif s[0] == "arms":
            # the state reaction to a terminal status parks at the entry of updateTaskState; the status reaction goes first
            sarmed = True
            steps += [{"do": "gate", "point": "task.state.update", "match": {"state": "ERROR"}}]
        elif s[0] == "releases":
            sarmed = False
            steps += [{"do": "ungate", "point": "task.state.update"}, {"do": "settle", "ms": 60}]
        elif s[0] == "armm":
            # the ERROR update of a task role parks between its merge into the role and its forwarding to the parent
            marmed = True
            steps += [{"do": "gate", "point": "wf.taskrole.merged", "match": {"env": "e1", "state": "ERROR"}}]
        elif s[0] == "releasem":
            marmed = False
            steps += [{"do": "ungate", "point": "wf.taskrole.merged"}, {"do": "settle", "ms": 60}]
        elif s[0] == "armf":
            steps += [{"do": "gate", "point": "env.watch.fire", "match": me}]
        elif s[0] == "releasef":
            # "beyond the grace period" means: the timer callback has started (it is parked at its first hook point)
            if crit_hit:
                steps += [{"do": "waitgate", "point": "env.watch.fire", "timeout_ms": 3000}]
            steps += [{"do": "ungate", "point": "env.watch.fire"}, {"do": "settle", "ms": 40}]
    # --- verdict window: ERROR needs the watcher's 500 ms plus processing; the deadline only bounds
    # "nothing more will happen" (long when a critical task was hit, short otherwise) -----------
    steps += [{"do": "poll", "env": "e1", "until": ["ERROR"], "timeout_ms": long_ms if crit_hit else 1500},
              {"do": "settle", "ms": 250}, {"do": "snapshot"}]
    model = {"tasks": tasks, "hook": shape["hook"], "layout": shape["layout"], "state": shape["state"], "watch": shape["watch"],
             "reused": reused, "script": script, "origin": origin, "crit_hit": crit_hit}
    scn = {"id": sid, "family": "C03", "agents": AGENTS, "files": files, "core": {"flags": ["--reuseUnlockedTasks=true"]} if reused else {},
           "scripts": [], "hooks": hooks, "steps": steps,
           "model": model}
    if any(x[0] in ("latereply", "stale") for x in script) and any(x[0] == "fault" and x[1] in ("EXECUTOR_LOST", "AGENT_LOST") for x in script):
        # After GO_ERROR the watcher sends STOP to every task whose state is RUNNING - also to the dead one whose stale answer made
        # it look RUNNING. Its agent/executor id was blanked by the failure handler, so no answer can match and the core's single
        # command queue stays blocked for the 90 s timeout: such a scenario gets a core of its own.
        scn["isolated"] = True
    return scn


def instant_of(shape, script):
    """Where the (first) fault strikes and what surrounds it, for the violation signature."""
    parts = []
    if shape["watch"] in ("busy", "unsub"):
        parts.append("watcher-" + shape["watch"])
    if shape.get("reused"):
        parts.append("reused-task")
    if any(s[0] == "fault" and len(s) > 3 and s[3] == "recon" for s in script):
        parts.append("learnt-by-reconciliation")
    if any(s[0] == "fault" and len(s) > 3 and s[3].startswith("master") for s in script):
        parts.append("master-generated-" + [s[3] for s in script if s[0] == "fault" and len(s) > 3][0])
    seen = False
    for s in script:
        if s[0] == "fault":
            seen = True
        elif s[0] == "armw" and not seen:
            parts.append("watcher-armed")
        elif s[0] == "api" and not seen:
            parts.append("%s-%s" % (s[1].lower(), s[2]))
        elif s[0] == "mupdate":
            parts.append("after-master-update-" + s[2])
        elif s[0] == "armm":
            parts.append("error-update-held-after-merge")
        elif s[0] == "arms":
            parts.append("status-reaction-first")
        elif s[0] in ("stale", "latereply") and seen:
            parts.append("then-" + ("stale-state" if s[0] == "stale" else "late-error-answer" if len(s) > 2 and s[2] == "error" else "late-answer") + ("-within-grace" if "armf" in [x[0] for x in script]
                         and script.index(s) < [x[0] for x in script].index("releasef") else ""))
    return "+".join(parts) or "idle"


# ---------------------------------------------------------------------------------------------
# counterexample -> script
# ---------------------------------------------------------------------------------------------
FAULT_ACTIONS = {"TaskTerminal", "Finished", "GroupLost", "InternalError"}


def cex_to_case(cex):
    st0 = cex[0][2]
    shape = {"crit": dict(st0["crit"]), "layout": st0["layout"], "hook": st0["hook"], "state": st0["envSt"], "watch": st0["wpc"]}
    script = []
    wclosed = shape["watch"] in ("busy", "unsub")
    txopen = False
    for i in range(1, len(cex)):
        name, args, st = cex[i]
        pre = cex[i - 1][2]
        if name in FAULT_ACTIONS:
            if wclosed and pre["wpc"] == "select":
                script.append(["releasew"])
                wclosed = False
            if pre["lock"] == "api" and not txopen:
                script.append(["api", pre["tx"]["op"], "early" if pre["tx"]["pc"] in ("locked", "sent") else "late"])
                txopen = True
            args = [str(a).strip('"') for a in args]
            kind = "TASK_FINISHED" if name == "Finished" else "INTERNAL_ERROR" if name == "InternalError" else args[0]
            script.append(["fault", kind, args[-1]])
        elif name == "ApiAcquire" and any(s[0] == "fault" for s in script):
            script.append(["api", st["tx"]["op"], "early"])
            txopen = True
    if txopen:
        script.append(["releasetx"])
    if wclosed:
        script.append(["releasew"])
    return shape, script


# ---------------------------------------------------------------------------------------------
def pick(ctx, cases, quick):
    """Stratified, seeded choice among the cases TLC enumerated."""
    rnd = random.Random(ctx.seed)
    rnd.shuffle(cases)

    def victim_crit(c):
        f = [s for s in c[1] if s[0] == "fault"][0]
        return c[0]["crit"][f[2]]

    def kinds(c):
        return tuple(s[1] for s in c[1] if s[0] == "fault")

    def pattern(c):
        return tuple(s[0] + (":" + s[1] + ":" + s[2] if s[0] == "api" else "") for s in c[1])

    chosen, seen = [], set()

    def take(pred, key, per, limit=None):
        cnt = {}
        n = 0
        for c in cases:
            cid = json.dumps(c, sort_keys=True)
            if cid in seen or not pred(c):
                continue
            k = key(c)
            if cnt.get(k, 0) >= per:
                continue
            cnt[k] = cnt.get(k, 0) + 1
            seen.add(cid)
            chosen.append(c)
            n += 1
            if limit and n >= limit:
                break

    two = lambda c: len(c[0]["crit"]) == 2
    mixed = lambda c: sorted(c[0]["crit"].values()) == [False, True]
    one = lambda c: len(kinds(c)) == 1
    # every kind x live state x critical / non-critical victim, idle, one executor per task
    take(lambda c: two(c) and mixed(c) and one(c) and c[0]["watch"] == "select" and c[0]["layout"] == "own" and pattern(c) == ("fault",)
         and not c[0].get("reused") and len([s for s in c[1] if s[0] == "fault"][0]) == 3,
         lambda c: (kinds(c), c[0]["state"], victim_crit(c)), 1)
    # racing with START / STOP, parked early and late
    take(lambda c: two(c) and one(c) and c[0]["watch"] == "select" and pattern(c)[0].startswith("api") and len(c[1]) == 3
         and any(c[0]["crit"].values()),
         lambda c: (pattern(c), victim_crit(c)), 1 if quick else 4)
    # watcher busy / not yet subscribed / shared executor
    take(lambda c: two(c) and one(c) and c[0]["watch"] in ("busy", "unsub") and pattern(c) == ("fault", "releasew"),
         lambda c: (c[0]["watch"], c[0]["state"], victim_crit(c)), 1 if quick else 5)
    take(lambda c: two(c) and mixed(c) and one(c) and c[0]["layout"] == "shared" and kinds(c)[0] in ("EXECUTOR_LOST", "AGENT_LOST")
         and pattern(c) == ("fault",) and c[0]["watch"] == "select",
         lambda c: (kinds(c), victim_crit(c), c[0]["state"]), 1)
    # refused GO_ERROR
    take(lambda c: c[0]["hook"] != "none" and pattern(c) == ("fault",), lambda c: (c[0]["hook"], c[0]["state"], victim_crit(c)), 1 if quick else 2)
    fault_of = lambda c: [s for s in c[1] if s[0] == "fault"][0]
    steps_of = lambda c: tuple(s[0] for s in c[1])
    # a master-generated TASK_RUNNING update (no executor id / no ids) for the later victim, then every failure kind
    take(lambda c: two(c) and c[1][0][0] == "mupdate" and c[1][0][1] == fault_of(c)[2] and c[0]["layout"] == "own" and victim_crit(c)
         and len(fault_of(c)) == 3,
         lambda c: (kinds(c), c[1][0][2]), 1 if quick else 2)
    # ... and then a terminal update that is generated by the master as well: two updates without uuid in a row for one task
    take(lambda c: two(c) and c[1][0][0] == "mupdate" and c[1][0][1] == fault_of(c)[2] and c[0]["layout"] == "own" and victim_crit(c)
         and len(fault_of(c)) > 3 and fault_of(c)[3].startswith("master"),
         lambda c: (kinds(c), fault_of(c)[3]) if quick else (kinds(c), fault_of(c)[3], c[1][0][2], c[0]["state"]), 1)
    take(lambda c: two(c) and c[1][0][0] == "mupdate" and c[1][0][1] == fault_of(c)[2] and mixed(c) and not victim_crit(c)
         and len(fault_of(c)) == 3,
         lambda c: c[1][0][2], 1 if quick else 3)
    # a task dies owing its answer to the racing transition; the answer arrives within / beyond the watcher's grace period
    owed = lambda c: c[1][0][0] == "api" and c[1][0][2] == "owed"
    late_mode = lambda c: ([x[2] for x in c[1] if x[0] == "latereply" and len(x) > 2] + ["ok"])[0]
    take(lambda c: two(c) and owed(c) and c[1][0][3] == fault_of(c)[2] and victim_crit(c) and late_mode(c) == "ok",
         lambda c: (steps_of(c), c[1][0][1]), 1 if quick else 4)
    take(lambda c: two(c) and owed(c) and (c[1][0][3] != fault_of(c)[2] or not victim_crit(c)) and any(c[0]["crit"].values())
         and late_mode(c) == "ok",
         lambda c: (c[1][0][3] == fault_of(c)[2], victim_crit(c)), 1 if quick else 3)
    # ... the answer that was on its way is an error: the transition fails after the run was announced (START) / while it runs (STOP)
    take(lambda c: two(c) and owed(c) and c[1][0][3] == fault_of(c)[2] and victim_crit(c) and c[1][-1][0] == "latereply" and c[1][-1][2] == "error"
         and steps_of(c) == ("api", "fault", "latereply"),
         lambda c: (c[1][0][1], kinds(c)[0] in ("EXECUTOR_LOST", "AGENT_LOST")) if quick else (c[1][0][1], kinds(c)), 1)
    # a stale healthy state message of the dead task, within / beyond the grace period
    take(lambda c: two(c) and "stale" in steps_of(c) and fault_of(c)[2] == [s for s in c[1] if s[0] == "stale"][0][1] and victim_crit(c),
         lambda c: steps_of(c) if quick else (steps_of(c), c[0]["state"], kinds(c)), 1)
    # ... and the same with the ERROR update held between its merge into the role and its forwarding
    take(lambda c: two(c) and steps_of(c) == ("armm", "fault", "stale", "releasem") and fault_of(c)[2] == c[1][2][1] and c[0]["layout"] == "own",
         lambda c: ((kinds(c) if victim_crit(c) else "non-critical") if quick else (kinds(c), victim_crit(c), c[0]["state"])), 1)
    # refused GO_ERROR x stale state inside the grace period
    take(lambda c: two(c) and c[0]["hook"] != "none" and steps_of(c) == ("armf", "fault", "stale", "releasef") and victim_crit(c)
         and fault_of(c)[2] == c[1][2][1],
         lambda c: (c[0]["hook"], c[0]["state"]) if quick else (c[0]["hook"], c[0]["state"], kinds(c)), 1)
    # a terminal status learnt through reconciliation (reason REASON_RECONCILIATION)
    take(lambda c: two(c) and mixed(c) and pattern(c) == ("fault",) and len(fault_of(c)) > 3 and c[0]["layout"] == "own" and c[0]["watch"] == "select"
         and not c[0].get("reused") and c[0]["hook"] == "none",
         lambda c: ((kinds(c), fault_of(c)[3], c[0]["state"]) if victim_crit(c) else (kinds(c), fault_of(c)[3])) if not quick else (
             ((kinds(c) if fault_of(c)[3] == "recon" else fault_of(c)[3]) if victim_crit(c) else "non-critical")), 1)
    # the status reaction to a terminal status (INACTIVE) completes before the state reaction (ERROR) starts
    take(lambda c: two(c) and steps_of(c) == ("arms", "fault", "releases") and kinds(c)[0] in ("TASK_FAILED", "TASK_LOST", "TASK_KILLED")
         and c[0]["layout"] == "own",
         lambda c: ((kinds(c) if victim_crit(c) else "non-critical") if quick else (kinds(c), victim_crit(c), c[0]["state"])), 1)
    # reused tasks
    take(lambda c: two(c) and c[0].get("reused") and steps_of(c) == ("fault",),
         lambda c: ((kinds(c), c[0]["state"]) if victim_crit(c) else "non-critical") if quick else (kinds(c), c[0]["state"], victim_crit(c)), 1)
    if quick:
        take(lambda c: c[0]["hook"] == "none" and not c[0].get("reused"), lambda c: 0, 2)
    else:
        take(lambda c: len(c[0]["crit"]) == 3 and c[0]["hook"] == "none", lambda c: (pattern(c), kinds(c), c[0]["state"]), 1, limit=170)
        take(lambda c: len(kinds(c)) == 2, lambda c: (pattern(c), kinds(c)), 1, limit=170)
        take(lambda c: c[0]["hook"] == "none", lambda c: (pattern(c), kinds(c), c[0]["state"], c[0]["watch"], victim_crit(c)), 1, limit=160)
    return chosen


def run(ctx):
    quick = ctx.tier == "quick"
    ctx.assumptions += [
        "Mesos master, agents and executors are simulated; every task of one agent shares one executor, so EXECUTOR_LOST and AGENT_LOST hit the same tasks",
        "'its process dies' is injected as TASK_FAILED; a task that announced TASK_INTERNAL_ERROR answers every later command with an error (state ERROR)",
        "a task may die owing its answer to a command and a stale healthy state message of a dead task may be processed after its failure (model: late, StaleUpdate; harness: withheld / duplicated answer sent by the simulated executor); races inside the role tree are C11's subject",
        "master-generated status updates are TASK_RUNNING with SOURCE_MASTER, no uuid, no executor id and optionally no agent id",
        "flat workflows (root with 1-3 task roles); deadline for ERROR = poll of 10-15 s after the last gate opened (the code needs 0.5 s + processing); when no critical task was hit 1.5 s + quiescence",
        "a command sent to a task that dies before answering (90 s timeout in the code) is covered by the model (TxFail) but not run on the real core",
    ]
    ctx.rule = ("scenario = (workflow shape: 1-3 tasks x criticality x executor layout x optional failing before_GO_ERROR hook; live state; "
                "watcher position; script of gates, racing API transition (parked early / late, or one answer withheld), master-generated status update, "
                "faults, late answers and stale state messages, watcher timer held or not) enumerated by TLC from FailureGen; stratified seeded sample; "
                "non-trivial = a critical task is hit or a transition races")
    # ---- 1. the model: code as it is (open deviations excused), exhaustively, with liveness ------
    w = min(8, vlib.NCPU)
    few = ["TASK_FAILED", "TASK_FINISHED", "AGENT_LOST", "INTERNAL_ERROR"]
    # idle environment: every kind, a stale healthy state message of the dead task, a master-generated TASK_RUNNING update
    ctx.model_check("Failure", None, workers=w, cfg_text=cfg_model(ctx, stale=1, mup=1, vias=ALLVIAS))
    ctx.model_check("Failure", None, workers=w, cfg_text=cfg_model(ctx, hooks=("early", "late", "after"), stale=1,
                                                                   kinds=["TASK_FAILED", "AGENT_LOST"] if quick else ALLKINDS,
                                                                   watch=("select",) if quick else ("select", "unsub", "busy")))
    # the role update in separate steps (merge, publish, forward, root merge, send) against a stale message of the same task
    ctx.model_check("Failure", None, workers=w, cfg_text=cfg_model(ctx, fine=True, stale=1, watch=("select",), layouts=("own",),
                                                                   kinds=["TASK_FAILED", "AGENT_LOST", "INTERNAL_ERROR"]))
    # racing API transition: a task may die owing its answer, the answer may be processed after the failure
    if quick:
        ctx.model_check("Failure", None, workers=w, cfg_text=cfg_model(ctx, racing=True, watch=("select",), layouts=("own",),
                                                                       kinds=["TASK_FAILED", "AGENT_LOST", "INTERNAL_ERROR"]))
    else:
        ctx.model_check("Failure", None, workers=w, cfg_text=cfg_model(ctx, racing=True))
        ctx.model_check("Failure", None, workers=w, cfg_text=cfg_model(ctx, racing=True, stale=1, watch=("select", "busy")))
        ctx.model_check("Failure", None, workers=w, cfg_text=cfg_model(ctx, ntasks=3, layouts=("own", "shared", "mixed"), stale=1, mup=1))
        ctx.model_check("Failure", None, workers=w, cfg_text=cfg_model(ctx, faults=2, stale=1))
        ctx.model_check("Failure", None, workers=w, cfg_text=cfg_model(ctx, ntasks=2, fine=True, watch=("select", "busy"), layouts=("own",), stale=1))
        ctx.model_check("Failure", None, workers=w, cfg_text=cfg_model(ctx, ntasks=2, fine=True, racing=True, watch=("select", "busy"),
                                                                       layouts=("own",), kinds=few))
        ctx.model_check("Failure", None, workers=w, cfg_text=cfg_model(ctx, ntasks=3, racing=True, watch=("select",), states=("RUNNING",),
                                                                       layouts=("mixed",), kinds=["TASK_FAILED", "AGENT_LOST", "INTERNAL_ERROR"]))
    for r in ctx.model_runs:
        if r["result"] != "ok":
            raise vlib.Inconclusive("MODEL: the model of the code as it is violates a property although every known deviation is excused: %s" % r)
    # ---- 2. every open deviation: plain properties, that deviation only -> counterexample ---------
    none = {c: False for c in DEVS}
    cex_cases = []
    for c, key in DEVS.items():
        if not ctx.deviation_open(key):
            continue
        d = dict(none)
        d[c] = True
        ie = c.startswith("Code_InternalError")
        r = ctx.tlc("Failure", None, workers=2, cfg_text=cfg_model(ctx, devs=d, strict=True, kinds=["INTERNAL_ERROR"] if ie else NOT_IE,
                                                                    hooks=("none", "early", "late") if c == "Code_ForcedErrorSkipsRunEnd" else ("none",), vias=("direct",)))
        ctx.states += r.distinct
        ctx.transitions += r.generated
        violated = r.violated + re.findall(r"Error: Temporal property ([A-Za-z0-9_]+) was violated", r.out)
        if not violated:
            ctx.save_debug(r, "dev_%s.txt" % c)
            raise vlib.Inconclusive("MODEL: deviation %s does not violate any property in the model" % c)
        shape, script = cex_to_case(r.counterexample())
        cex_cases.append((key, violated[0], shape, script))
        ctx.model_runs.append({"module": "Failure", "cfg": "only %s, plain properties" % c, "distinct": r.distinct, "generated": r.generated,
                               "result": "violated:" + violated[0] + " (expected; replayed on the real core)", "wall_s": round(r.wall, 1)})
        ctx.log("deviation %s: TLC counterexample (%s) -> %s %s" % (key, violated[0], shape, script))
    # the repaired design satisfies the plain properties (it reads the workflow state when the watcher subscribes: a stale
    # healthy state message or late answer processed before the subscription is outside what it repairs, hence no "unsub"
    # together with stale messages / a racing transition)
    rep = [cfg_model(ctx, devs=none, strict=True, stale=1, mup=1, watch=("select", "busy"), kinds=few if quick else ALLKINDS,
                     layouts=("own",) if quick else ("own", "shared"))]
    if not quick:
        rep += [cfg_model(ctx, devs=none, strict=True, hooks=("none", "early", "late")), cfg_model(ctx, devs=none, strict=True, racing=True, watch=("select", "busy"))]
    for cfg in rep:
        ctx.model_check("Failure", None, workers=w, cfg_text=cfg)
        if ctx.model_runs[-1]["result"] != "ok":
            raise vlib.Inconclusive("MODEL: the repaired design violates a property: %s" % ctx.model_runs[-1])
    # ---- 3. scenarios from the model ---------------------------------------------------------------
    cases = []

    def gen(**kw):
        g = ctx.tlc("FailureGen", None, workers=1, cfg_text=cfg_gen(ctx, **kw), timeout=900)
        recs = g.records("CASE")
        if not recs:
            ctx.save_debug(g, "gen.txt")
            raise vlib.Inconclusive("no cases generated: " + vlib.tail(g.out))
        ctx.states += g.distinct
        ctx.transitions += g.generated
        for c in recs:
            cases.append((c[1], [list(s) for s in c[2]]))
        return len(recs)

    racekinds = ["TASK_FAILED", "TASK_KILLED", "AGENT_LOST", "INTERNAL_ERROR"]
    n1 = gen()
    n1 += gen(racing=True, kinds=racekinds, watch=("select",)) if quick else gen(racing=True)
    n2 = gen(hooks=("early", "late", "after"), kinds=["TASK_FAILED", "AGENT_LOST"], watch=("select",), layouts=("own",), vias=("direct",))
    # a master-generated TASK_RUNNING update before the fault; a task that dies owing its answer to the racing transition;
    # a stale healthy state message of the dead task - within and beyond the watcher's 500 ms
    n5 = gen(racing=True, stale=1, mup=1, kinds=NOT_IE, watch=("select",), layouts=("own",) if quick else ("own", "shared"),
             extras=("mup", "owed", "stale", "order"), vias=("direct", "master", "masterrecon"))
    # a refused GO_ERROR (failing critical before_GO_ERROR hook) x a stale healthy state inside the watcher's grace period:
    # the forced state must be ERROR whatever the workflow says by then
    n5 += gen(hooks=("early", "late"), stale=1, kinds=["TASK_FAILED", "TASK_KILLED"], watch=("select",), layouts=("own",), extras=("stale",))
    # failures of reused tasks (launched for an earlier environment: their executor's events still name that one)
    n5 += gen(kinds=["INTERNAL_ERROR", "TASK_FAILED", "AGENT_LOST"], watch=("select",), layouts=("own",), reuse=(True,))
    # the ERROR update of the victim's role held between merge and forwarding while a stale state message goes through
    n5 += gen(fine=True, stale=1, kinds=NOT_IE, watch=("select",), layouts=("own",) if quick else ("own", "shared"), extras=("merge",))
    n3 = n4 = 0
    if not quick:
        n3 = gen(ntasks=3, layouts=("own", "mixed"), watch=("select", "busy"), racing=True,
                 kinds=["TASK_FAILED", "TASK_KILLED", "EXECUTOR_LOST", "INTERNAL_ERROR"])
        n4 = gen(faults=2, kinds=["TASK_LOST", "TASK_FINISHED", "AGENT_LOST", "INTERNAL_ERROR"], layouts=("own",), watch=("select", "busy"))
    uniq = {}
    for c in cases:
        uniq.setdefault(json.dumps(c, sort_keys=True), c)
    cases = [uniq[k] for k in sorted(uniq)]
    chosen = pick(ctx, cases, quick)
    long_ms = 10000 if quick else 15000
    scenarios, sid = [], 0
    for key, inv, shape, script in cex_cases:
        sid += 1
        scenarios.append(scenario(sid, shape, script, long_ms, origin="cex:" + key))
    for shape, script in chosen:
        sid += 1
        scenarios.append(scenario(sid, shape, script, long_ms))
    ctx.log("cases from TLC: %d (+%d hook, +%d master update / owed answer / stale state, +%d three tasks, +%d two faults), distinct %d; "
            "scenarios: %d (%d from counterexamples)" % (n1, n2, n5, n3, n4, len(cases), len(scenarios), len(cex_cases)))
    by_id = {s["id"]: s for s in scenarios}
    for s in scenarios:
        m = s["model"]
        ctx.count_case(json.dumps({k: m[k] for k in ("tasks", "hook", "layout", "state", "watch", "script")}, sort_keys=True).replace(
            "c03s%d" % s["id"], "c"), nontrivial=m["crit_hit"] or any(x[0] == "api" for x in m["script"]))
    ctx.exhaustive = False
    # ---- 4. run on the real core, 5. validate ----------------------------------------------------------
    lines = cs.run_scenarios(ctx, scenarios, procs=6 if quick else 10)
    judge(ctx, scenarios, lines, cex_cases)


def replay(ctx, obj):
    s = obj["scenario"]
    judge(ctx, [s], cs.run_scenarios(ctx, [s]), [])


def judge(ctx, scenarios, lines, cex_cases):
    by_id = {s["id"]: s for s in scenarios}
    HOOKS = {"env.watch.start", "env.watch.subscribed", "env.watch.recv", "env.watch.fire", "wf.notify.sent", "wf.notify.dropped",
             "wf.notify.nosub", "env.lock.acquired", "env.lock.release", "env.setstate"}

    def proj(ln):
        ev, scn = ln["ev"], ln["scn"]
        if ev == "Reset":
            m = ln.get("model") or {}
            return {"ev": ev, "scn": scn, "model": {"tasks": m.get("tasks", []), "hook": m.get("hook", "none")}}
        if ev == "MAccept":
            return {"ev": ev, "scn": scn, "tasks": [{"class": t["class"], "agent": t["agent"], "executor": t["executor"]} for t in ln["tasks"]]}
        if ev in ("Api", "ApiReply") and ln.get("env", "e1") not in ("e1", ""):
            return None   # the earlier environment a reused task was launched for
        if ev == "Api":
            return {"ev": ev, "scn": scn, "call": ln.get("call", ""), "op": ln.get("op", "")}
        if ev == "ApiReply":
            return {"ev": ev, "scn": scn, "call": ln.get("call", ""), "op": ln.get("op", ""), "code": ln.get("code", ""),
                    "st": ln.get("st", ""), "rn": ln.get("rn", 0)}
        if ev == "Fault":
            return {"ev": ev, "scn": scn, "kind": ln["kind"], "class": ln["class"], "ok": bool(ln.get("ok"))}
        if ev == "Hook":
            if ln.get("point") not in HOOKS or ln.get("env") != "e1":
                return None
            return {"ev": ev, "scn": scn, "point": ln["point"], "state": ln.get("state", ""), "what": ln.get("what", ""),
                    "st": ln.get("st", ""), "to": ln.get("to", "")}
        if ev == "Observe":
            if ln["st"] == "GONE":   # a poll whose deadline expired inside the call
                return None
            return {"ev": ev, "scn": scn, "st": ln["st"]}
        if ev == "Snapshot":
            st = [e["st"] for e in ln["envs"] if e["env"] == "e1"]
            return {"ev": ev, "scn": scn, "st": st[0] if st else "GONE"}
        if ev == "RunEv":
            return {"ev": ev, "scn": scn, "rn": ln.get("rn", 0), "tx": ln.get("tx", ""), "status": ln.get("status", "")}
        if ev in ("GateArmed", "GateRemoved"):
            return {"ev": "Gate", "scn": scn, "op": "armed" if ev == "GateArmed" else "open", "point": ln["point"]}
        if ev == "End":
            return {"ev": ev, "scn": scn}
        return None

    per = {}
    for ln in lines:
        per.setdefault(ln.get("scn", -1), []).append(ln)
    unscripted = {}
    for s in scenarios:
        tr = per.get(s["id"], [])
        bad = [x for x in tr if (x["ev"] == "Fault" and not x.get("ok")) or (x["ev"] == "End" and x.get("tainted"))]
        # the setup (creation, the synchronous START / STOP that lead to the initial state of the script) must have worked:
        # a failed deployment is harness trouble, never a verdict
        insetup = True
        for x in tr:
            if x["ev"] == "Fault" or (x["ev"] == "MasterUpdate" and not s["model"].get("reused")) or (
                    x["ev"] == "Api" and x.get("caller") and x.get("call") != "create"):
                insetup = False
            if x["ev"] == "ApiReply" and x.get("call") == "create" and (x.get("code") != "OK" or x.get("st") != "CONFIGURED"):
                bad.append(x)
            elif insetup and x["ev"] == "ApiReply" and x.get("code") != "OK":
                bad.append(x)
        if s["model"].get("reused") and not any(x["ev"] == "Hook" and x.get("point") == "task.lock" and x.get("reused") for x in tr):
            bad.append({"ev": "no task was reused"})
        # a gate that nobody reached: the run is still a real execution (judged on its recorded facts), but not the intended schedule
        missed = [x["point"] for x in tr if x["ev"] == "GateReached" and not x.get("ok")]
        if missed:
            ctx.extra["gates_not_reached"] = ctx.extra.get("gates_not_reached", 0) + 1
            ctx.observations.append("scenario %d %s: nobody arrived at gate %s" % (s["id"], s["model"]["script"], missed))
        if bad or not any(x["ev"] == "End" for x in tr):
            # not judged; inconclusive unless the scenarios that did run as scripted show a violation (see below)
            ctx.save_debug(type("R", (), {"out": "\n".join(json.dumps(x) for x in tr)})(), "scn%d.ndjson" % s["id"])
            unscripted[s["id"]] = "scenario %d did not run as scripted (%s): %s" % (s["id"], s["model"]["script"], bad[:2])
    lines = [ln for ln in lines if ln.get("scn", -1) not in unscripted]
    if len(unscripted) > max(2, len(scenarios) // 10) or len(unscripted) == len(scenarios):
        raise vlib.Inconclusive("; ".join(list(unscripted.values())[:2]))
    tf = cs.write_trace(ctx, lines, keep=proj)
    ctx.sample({"scenario_model": scenarios[-1]["model"], "steps": scenarios[-1]["steps"]})
    if cex_cases:
        ctx.sample({"counterexample_scenario": scenarios[0]["model"], "steps": scenarios[0]["steps"]})
    ctx.sample({"trace_excerpt": [x for x in map(proj, per.get(scenarios[0]["id"], [])) if x and x["ev"] in ("Fault", "Hook", "Observe", "RunEv")][-14:]})
    # ---- 5. validate -----------------------------------------------------------------------------------
    viol, drift, tr = ctx.validate("FailureTrace", None, tf, cfg_text=cfg_trace(ctx))
    ctx.traces = len(scenarios)
    ctx.extra["trace_lines"] = len(lines)
    for d in drift:
        ctx.drift.append({"scn": d[1], "line": d[2], "what": d[3], "model": by_id.get(d[1], {}).get("model")})
    flagged = {}
    for v in viol:
        flagged.setdefault(v[2], set()).add(v[1])
    seen = set()
    for v in viol:
        inv, scn = v[1], v[2]
        if (inv, scn) in seen:
            continue
        seen.add((inv, scn))
        s = by_id.get(scn, {})
        m = s.get("model", {})
        trl = per.get(scn, [])
        ctx.add_violation(signature(inv, scn, m, trl, v), replay_obj={"scenario": s, "trace": trl})
    if unscripted and not ctx.violations:
        raise vlib.Inconclusive("; ".join(list(unscripted.values())[:2]))
    for msg in unscripted.values():
        ctx.observations.append(msg[:300])
    # a model counterexample counts only if the real run shows it
    for i, (key, inv, shape, script) in enumerate(cex_cases, 1):
        if inv not in flagged.get(i, set()):
            msg = ("MODEL-UNREPRODUCED deviation %s: the counterexample's scenario %d (%s) did not violate %s on the real core"
                   % (key, i, script, inv))
            if ctx.violations:
                # recorded executions that break the property outside the known findings decide the verdict
                ctx.observations.append(msg)
            else:
                raise vlib.Inconclusive(msg)
    # observations (not verdicts): TASK_FINISHED of a critical task is not a failure kind of the statement
    fin = 0
    for s in scenarios:
        m = s["model"]
        crit = {t["id"]: t["crit"] for t in m["tasks"]}
        fk = [x for x in m["script"] if x[0] == "fault"]
        if len(fk) == 1 and fk[0][1] == "TASK_FINISHED" and crit[fk[0][2]] and m["state"] == "RUNNING":
            snaps = [x for x in per.get(s["id"], []) if x["ev"] == "Snapshot"]
            if snaps and any(e["env"] == "e1" and e["st"] == "RUNNING" for e in snaps[-1]["envs"]):
                fin += 1
    if fin:
        ctx.observations.append("TASK_FINISHED of a critical task (exit code 0, not a failure kind of the statement) leaves the environment RUNNING "
                                "with the task DONE/INACTIVE (%d scenario(s))" % fin)


def signature(inv, scn, m, trl, v):
    script = m.get("script", [])
    crit = {t["id"]: t["crit"] for t in m.get("tasks", [])}
    faults = [x for x in script if x[0] == "fault"]
    shape = {"watch": m.get("watch"), "layout": m.get("layout"), "reused": m.get("reused")}
    # the fault the violation is about: the first one that hits a critical task for ErrorReached / RunEndRecorded,
    # the first one otherwise
    tids = sorted(crit)

    def hit(x):
        if x[1] in ("EXECUTOR_LOST", "AGENT_LOST") and x[2] in tids:
            h = host_of(m.get("layout"), tids.index(x[2]) + 1, len(tids))
            return [t for i, t in enumerate(tids, 1) if host_of(m.get("layout"), i, len(tids)) == h]
        return [x[2]]

    f = faults[0] if faults else ["fault", "?", "?"]
    if inv != "NonCriticalInert":
        for x in faults:
            if any(crit.get(t) for t in hit(x)):
                f = x
                break
    else:
        # the fault after which the environment left the state the operator put it in: a TASK_INTERNAL_ERROR whose
        # handler took the environment lock for STOP_ACTIVITY, if there is one
        seen_f, k = None, -1
        for x in trl:
            if x["ev"] == "Fault":
                k += 1
                seen_f = faults[k] if k < len(faults) else None
            if (x["ev"] == "Hook" and x.get("env") == "e1" and x.get("point") == "env.lock.acquired" and x.get("what") == "STOP_ACTIVITY"
                    and seen_f and seen_f[1] == "INTERNAL_ERROR"):
                f = seen_f
                break
    pre = "?"
    seen_fault = False
    after = []
    for x in trl:
        if x["ev"] == "Fault":
            seen_fault = True
        if x["ev"] == "Observe" and not seen_fault:
            pre = x["st"]
        if seen_fault and x["ev"] == "Hook" and x.get("env") == "e1":
            after.append(x)
    hooks_all = [x for x in trl if x["ev"] == "Hook" and x.get("env") == "e1"]
    cause = "unknown"
    if inv == "ErrorReached":
        if any(x["point"] == "wf.notify.dropped" and x.get("state") == "ERROR" for x in after):
            cause = "notify-dropped"
        elif any(x["point"] == "env.watch.subscribed" and x.get("state") == "ERROR" for x in hooks_all):
            cause = "subscribed-in-error"
        elif f[1] == "INTERNAL_ERROR" and not any(x["point"].startswith("wf.notify") and x.get("state") == "ERROR" for x in after):
            cause = "internal-error-not-handled"
    elif inv == "NonCriticalInert":
        if f[1] == "INTERNAL_ERROR" and any(x["point"] == "env.lock.acquired" and x.get("what") == "STOP_ACTIVITY" for x in after):
            cause = "internal-error-stop"
    elif inv == "RunEndRecorded":
        if any(x["point"] == "env.setstate" and x.get("to") == "ERROR" for x in after):
            cause = "goerror-refused"
    return {"inv": inv, "scn": scn, "kind": f[1], "state": pre, "critical": any(bool(crit.get(t)) for t in hit(f)), "instant": instant_of(shape, script),
            "cause": cause, "hook": m.get("hook"), "script": script, "detail": str(v[4])[:120]}
