"""C20 - configuration lookups return the most specific existing entry.

Model: spec/ConfigQuery.tla (functional: property-level and code-level definitions side by side).
TLC enumerates the input cases and checks the property formulas on the code-level functions
(spec/ConfigQueryGen.tla: the states ARE the cases; spec/ConfigQueryEdit.tla: seeded simulation of
assembled-then-edited strings).  The very same cases are fed to the real code
(harness/cmd/configquery: componentcfg.NewQuery/NewEntriesQuery/NewQueryParameters/Path/Raw/AbsoluteRaw,
apricot/local ResolveComponentQuery/GetComponentConfiguration/GetAndProcessComponentConfiguration on a
generated file backend) and TLC validates what the real code returned against
spec/ConfigQueryTrace.tla (conformance with the code-level functions + property monitor).
Expected values are computed by TLC only.
"""
import glob
import json
import os
import re
import time
from concurrent.futures import ThreadPoolExecutor

import tlaval
import vlib

DEV_KEY = "template-values-html-escaped"

INV_STR = "UnambiguousInv ParseExactInv MalformedRejectedInv RoundTripInv EntriesExactInv"
INV_PAR = "ParamsExactInv"
INV_RES = "ResolvedExistsInv MostSpecificInv ResolveIsSpecInv"
INV_RND = "RenderExactInv"

NARROW = ["a", "X", "P", "/", " ", "@"]                                     # one token per behaviour class
WIDE = ["a", "X", "7", "-", "_", "P", "A", "/", " ", "N", "@", "."]         # every character class of the regexes
PALPHA = ["a", "p", "t", "=", "&", ",", " ", "@"]


def tset(xs):
    return "{" + ", ".join(json.dumps(x) for x in xs) + "}"


def cfg_gen(esc, kinds, invs, alphabet=NARROW, maxlen=0, qword=("a", "X", "_"), qfirst=None, qsegmax=0,
            qentrytok=("a", "-", "/"), qentrymax=3, palphabet=PALPHA, pmaxlen=0, pmaxpairs=0,
            resqrt=("PHYSICS", "ANY"), resqroles=("r", "any"), resentries=("e",), rndmaxparts=2,
            resbackends=("file", "consul"), fldshapes=(0, 1, 2, 4, 5, 7), fldqueries=("Pr",)):
    return """SPECIFICATION Spec
CONSTANTS
  AutoEscape = %s
  Kinds = %s
  Alphabet = %s
  MaxLen = %d
  QWord = %s
  QFirst = %s
  QSegMax = %d
  QEntryTok = %s
  QEntryMax = %d
  PAlphabet = %s
  PMaxLen = %d
  PMaxPairs = %d
  ResRT = {"PHYSICS", "TECHNICAL", "ANY"}
  ResRoles = {"r", "s", "any"}
  ResQRT = %s
  ResQRoles = %s
  ResEntries = %s
  ResBackends = %s
  FldShapes = {%s}
  FldQueries = %s
  RndMaxParts = %d
INVARIANTS DumpInv %s
CHECK_DEADLOCK FALSE
""" % ("TRUE" if esc else "FALSE", tset(kinds), tset(alphabet), maxlen, tset(qword), tset(qfirst or qword), qsegmax,
       tset(qentrytok), qentrymax, tset(palphabet), pmaxlen, pmaxpairs, tset(resqrt), tset(resqroles),
       tset(resentries), tset(resbackends), ", ".join(map(str, fldshapes)), tset(fldqueries), rndmaxparts, invs)


def cfg_edit(esc, maxedits, maxseg):
    return """SPECIFICATION GenSpec
CONSTANTS
  AutoEscape = %s
  MaxEdits = %d
  MaxSeg = %d
INVARIANTS %s %s
CHECK_DEADLOCK FALSE
""" % ("TRUE" if esc else "FALSE", maxedits, maxseg, INV_STR, INV_PAR)


def cfg_trace(esc):
    return """SPECIFICATION TraceSpec
CONSTANTS
  AutoEscape = %s
INVARIANT PrintEnd
CHECK_DEADLOCK FALSE
""" % ("TRUE" if esc else "FALSE")


SVC_INVS = "INVARIANTS TypeOK CacheTransparent RequestExact ResolvedExistsNow MostSpecificNow FaultNeverInventsEntry PayloadNow"
KEYS = ["Pr", "Ar", "Pa", "Aa"]
ALL_NBRS = [[KEYS[i] for i in range(4) if m >> i & 1] for m in range(16)]
ALL_FAULTS = [[i + 1 for i in range(4) if m >> i & 1] for m in range(16)]


def fsets(fs):
    return "{" + ", ".join("{" + ", ".join(map(str, f)) + "}" for f in fs) + "}"



def cfg_svc(esc, maxsteps, varids, updids, require=True, gen=False, invs=True, focus=None, storeinit=(0, 1), editvals=(0, 1, 2),
            backends=("file", "consul"), faults=ALL_FAULTS, nbrinit=ALL_NBRS):
    return """SPECIFICATION %s
CONSTANTS
  AutoEscape = %s
  MaxSteps = %d
  VarIds = {%s}
  UpdIds = {%s}
  RequireInvalidate = %s
  ExistsRefreshes = TRUE
  StoreInit = {%s}
  EditVals = {%s}
  Backends = %s
  FaultSets = %s
  NbrInit = %s
%s
%s
CHECK_DEADLOCK FALSE
""" % ("GenSpec" if gen else "Spec", "TRUE" if esc else "FALSE", maxsteps, ", ".join(map(str, varids)), ", ".join(map(str, updids)),
       "TRUE" if require else "FALSE", ", ".join(map(str, storeinit)), ", ".join(map(str, editvals)), tset(backends), fsets(faults),
       "{" + ", ".join(tset(x) for x in nbrinit) + "}",
       ('  Focus = "%s"' % focus) if gen else "", SVC_INVS if invs else "")


def cfg_svc_trace(esc):
    return """SPECIFICATION TraceSpec
CONSTANTS
  AutoEscape = %s
  MaxSteps = 100000
  VarIds = {1}
  UpdIds = {1}
  RequireInvalidate = FALSE
  ExistsRefreshes = TRUE
  StoreInit = {0}
  EditVals = {0, 1, 2}
  Backends = {"file"}
  FaultSets = %s
  NbrInit = {{}}
INVARIANT PrintEnd
CHECK_DEADLOCK FALSE
""" % ("TRUE" if esc else "FALSE", fsets(ALL_FAULTS))


def beh_to_scenario(sid, beh, origin="simulate"):
    """A behaviour of ConfigQuerySvc(Gen) -> request sequence for the driver (the request is the state variable req)."""
    steps = []
    for (_, _, st) in beh[1:]:
        r = from_tla(st["req"])
        step = {"a": r["op"]}
        if r["op"] in ("Process", "Raw", "Update", "ExternalEdit", "Resolve", "GetX"):
            step["e"] = r["e"]
        if r["op"] == "ExternalEdit":
            step["v"] = st["store"][r["e"]]
        if r["op"] in ("Resolve", "GetX"):
            step["f"] = sorted(r["f"])
        if r["op"] == "Process":
            step["vars"] = r["vars"]
        if r["op"] == "Update":
            step["parts"] = r["parts"]
        steps.append(step)
    scn = {"id": sid, "origin": origin, "backend": beh[0][2]["backend"], "content": from_tla(beh[0][2]["content"]),
           "store": from_tla(beh[0][2]["store"]), "nbrs": sorted(from_tla(beh[0][2]["nbrs"])), "steps": steps}
    scn["concurrent_material"] = beh[0][2].get("foc") == "conc"      # read-only undisturbed requests only
    return scn


def par_run(fn, items, nproc):
    """Run fn(item) concurrently (TLC processes); ctx.tlc allocates its scratch directory from a shared counter,
    so a collision (FileExistsError) is simply retried."""
    def one(it):
        for attempt in range(50):
            try:
                return fn(it)
            except FileExistsError:
                time.sleep(0.02 * (attempt + 1))
        raise vlib.Inconclusive("could not allocate a TLC scratch directory")
    with ThreadPoolExecutor(max_workers=nproc) as ex:
        futs = [ex.submit(one, it) for it in items]
        return [f.result() for f in futs]


def dumped_cases(out):
    """Cases printed by DumpInv: PrintT(ToJson(case)) -> a JSON string literal holding JSON, one per line."""
    res = []
    for line in out.splitlines():
        if line.startswith('"{'):
            res.append(json.loads(json.loads(line)))
    return res


def violating_state(r):
    """Last state of TLC's counterexample; an invariant violated by an INITIAL state is printed without 'State 1:'."""
    cex = r.counterexample()
    if cex:
        return cex[-1][2]
    m = re.search(r"is violated by the initial state:\n(.*?)\n\s*\n", r.out, re.S)
    return tlaval.parse_state(m.group(1)) if m else None


def from_tla(v):
    """tlaval value of a `case` -> the JSON shape ToJson gives it (sets become lists)."""
    if isinstance(v, dict):
        if "$set" in v:
            return [from_tla(x) for x in v["$set"]]
        return {k: from_tla(x) for k, x in v.items()}
    if isinstance(v, list):
        return [from_tla(x) for x in v]
    return v


def canon(c):
    k = c["k"]
    if k in ("str", "par"):
        return k + ":" + "\x1f".join(c["s"])
    if k == "res":
        c = dict(c, B=sorted(c["B"]))
    return json.dumps(c, sort_keys=True, separators=(",", ":"))


def run(ctx):
    esc = ctx.deviation_open(DEV_KEY)       # the model describes the tree as it is / as repaired
    quick = ctx.tier == "quick"
    nproc = max(2, min(8, vlib.NCPU // 2))
    if os.environ.get("VERIF_NPROC"):
        nproc = int(os.environ["VERIF_NPROC"])
    ctx.assumptions += [
        "strings are sequences of tokens mapped to characters by a fixed table (Chr in spec/ConfigQuery.tla = tokChr in the driver, "
        "cross-checked line by line): every printable ASCII character, NBSP, EM SPACE, e-acute, capital omega, tab, newline and the "
        "words PHYSICS, ANY, process, true; a token sequence is judged by the characters it spells; the run type names, the "
        "ParseBool strings and the key 'process' the model uses are compared with the real ones (Table line of the trace); "
        "non-ASCII characters are transliterated in recorded strings",
        "entry keys with a folder part: the query c/RT/role/x/y over stores whose four candidate levels each have one of 8 shapes "
        "(x absent / plain entry / folder; y absent / beside / inside), on the file backend and on harness/fakeconsul",
        "existence is the file backend's Exists on a generated YAML (flow syntax) tree o2/components/<component>/<RUNTYPE>/<role>/"
        "<entry>; the four candidates exist as entries (strings), never as folders",
        "template variables have identifier names that are not utility names; entry content = literals, {{ var }} and one "
        "{% include %} of a sibling entry; other pongo2 features are trusted",
        "query strings beyond the exhaustive bound are covered by catalogues of segments and by seeded simulation only",
        "request sequences (spec/ConfigQuerySvc.tla): one service, two base paths, templates from a catalogue (literal, {{ var }}, "
        "util.PrefixedOverride / PrefixedOverride - the only utility reading the variable stack -, strings.ToUpper, include); the "
        "documented protocol is assumed: after an entry is updated the template cache is invalidated before the next processed "
        "request (a processed request while an update is pending invalidation is recorded and modelled, but not judged)",
        "the backing store is the FILE backend; an external writer replaces the whole file between two requests (never during "
        "one); the four candidates c/{PHYSICS,ANY}/{r,any}/x are added / replaced / removed; the Consul backend keeps no "
        "copy of the store (every Exists/Get is a KV read); on harness/fakeconsul the external write is a direct KV put/delete",
        "concurrent requests: free-running goroutines against one service with a read-only store (no scheduling control; a "
        "logrus hook yields at every log call of the code under test); each answer is judged as a function of its request and "
        "the unchanged store, so no verdict depends on timing",
        "backend faults hit existence checks only, between well-defined requests: file backend = the file is unparseable for the "
        "whole request (every check fails), Consul backend = the i-th KV GET of the request is answered HTTP 500 for i in a "
        "scripted set; the store content itself is not changed by a fault; under faults only 'fails or names an existing entry' "
        "is claimed, not 'most specific'",
    ]
    ctx.rule = ("case = one input (query string / parameter string / query+backend / template+variables) enumerated by TLC from "
                "spec/ConfigQueryGen.tla (exhaustive within bounds) or spec/ConfigQueryEdit.tla (tlc -simulate, seeded); every case "
                "is executed by the real code and its recorded result validated by TLC; distinct = distinct inputs; plus request "
                "sequences against one long-lived service = behaviours of spec/ConfigQuerySvcGen.tla (tlc -simulate, seeded)")

    # ---------------------------------------------------------------- 1. TLC: model check the definitions = enumerate the cases
    if quick:
        # few TLC processes (each start costs seconds on a busy machine): the kinds share runs
        jobs = [
            ("str-wide+near", cfg_gen(esc, ["str", "near"], INV_STR, alphabet=WIDE, maxlen=4)),
            ("str-exhaustive+catalogue", cfg_gen(esc, ["str"], INV_STR, alphabet=NARROW, maxlen=5, qsegmax=1)),
            ("sweep+par+res+fld+rnd-cases", cfg_gen(esc, ["sweep", "par", "res", "fld", "rnd"], INV_STR + " " + INV_PAR + " " + INV_RES,
                                                pmaxlen=4, pmaxpairs=2,
                                          rndmaxparts=2)),              # every rendering case, whatever the property says
            ("rnd", cfg_gen(esc, ["rnd"], INV_RND, rndmaxparts=2)),      # stops at a counterexample when AutoEscape
        ]
        nsim, nsimjobs, depth, maxedits, maxseg = 300, 1, 30, 2, 3
        svc_models = [("svc-model", cfg_svc(esc, 3, [3], [1], storeinit=[0], editvals=[0, 1],
                                            faults=[[], [1], [2, 3], [1, 2, 3, 4]], nbrinit=[KEYS]))]
        svc_nsim, svc_steps = 400, 9
        stress_runs, stress_repeat = 8, 60
    else:
        jobs = [
            ("str-exhaustive", cfg_gen(esc, ["str"], INV_STR, alphabet=NARROW, maxlen=7)),
            ("str-wide", cfg_gen(esc, ["str"], INV_STR, alphabet=[t for t in WIDE if t != "."], maxlen=5)),
            ("str-near+sweep", cfg_gen(esc, ["near", "sweep"], INV_STR + " " + INV_PAR)),
            ("par-exhaustive", cfg_gen(esc, ["par"], INV_PAR, palphabet=[t for t in PALPHA if t != "t"], pmaxlen=6)),
            ("par-catalogue", cfg_gen(esc, ["par"], INV_PAR, pmaxpairs=3)),
            ("res+fld", cfg_gen(esc, ["res", "fld"], INV_RES, resqrt=("PHYSICS", "TECHNICAL", "ANY"), resqroles=("r", "s", "any"),
                                resentries=("e", "sub/e"), fldshapes=range(8), fldqueries=("Pr", "Aa"))),
            ("rnd-cases", cfg_gen(esc, ["rnd"], "", rndmaxparts=3)),
            ("rnd", cfg_gen(esc, ["rnd"], INV_RND, rndmaxparts=3)),
        ]
        for f in ("a", "X", "_"):
            jobs.append(("str-catalogue-" + f, cfg_gen(esc, ["str"], INV_STR, qsegmax=2, qfirst=[f])))
        nsim, nsimjobs, depth, maxedits, maxseg = 1250, 2, 40, 3, 4
        svc_models = [("svc-model-render", cfg_svc(esc, 5, [1, 2, 3, 4, 5, 8], [1, 2, 4], storeinit=[0], editvals=[],
                                                   backends=["file"], faults=[[]], nbrinit=[[]])),
                      ("svc-model-store", cfg_svc(esc, 3, [], [], storeinit=[0, 1], editvals=[0, 1, 2],
                                                  nbrinit=[[], KEYS]))]
        svc_nsim, svc_steps = 2500, 14
        stress_runs, stress_repeat = 30, 80

    simjobs = [("simulate-%d" % i, cfg_edit(esc, maxedits, maxseg)) for i in range(1, nsimjobs + 1)]
    svcjobs = [("svc-simulate", cfg_svc(esc, svc_steps, range(1, 10), range(1, 5), gen=True, invs=True, focus="mixed"))] + svc_models

    def gen(job):
        label, cfg = job
        if label.startswith("simulate-"):
            seed = ctx.seed * 7919 + 20 + int(label.split("-")[1])
            return ctx.tlc("ConfigQueryEdit", None, workers=1, sim="file=sim/b,num=%d" % nsim, cfg_text=cfg, timeout=900,
                           extra=["-depth", str(depth), "-seed", str(seed)], files={"sim/.keep": ""})
        if label == "svc-simulate":
            return ctx.tlc("ConfigQuerySvcGen", None, workers=1, sim="file=sim/b,num=%d" % svc_nsim, cfg_text=cfg, timeout=900,
                           extra=["-depth", str(svc_steps + 1), "-seed", str(ctx.seed * 7919 + 77)], files={"sim/.keep": ""})
        if label.startswith("svc-model"):
            return ctx.tlc("ConfigQuerySvc", None, workers=2, cfg_text=cfg, timeout=900)
        return ctx.tlc("ConfigQueryGen", None, workers=1, cfg_text=cfg, timeout=900)

    t0 = time.time()
    with ThreadPoolExecutor(max_workers=1) as bx:
        building = bx.submit(ctx.build, "configquery")                # the driver is built while TLC enumerates
        results = par_run(gen, simjobs + svcjobs + jobs, nproc)       # the simulations are the longest jobs: start them first
        binp = building.result()
    nsvc = len(svcjobs)
    simresults, svcresults, results = results[:nsimjobs], results[nsimjobs:nsimjobs + nsvc], results[nsimjobs + nsvc:]
    cases, seen, origin = [], {}, {}
    predicted = []          # (invariant, case) model counterexamples to be reproduced on the real code
    complete = True

    def add(c, org=None):
        key = canon(c)
        if key not in seen:
            cases.append(c)
            seen[key] = len(cases)
        idx = seen[key]
        if org and (idx not in origin or org.startswith("model-")):
            origin[idx] = org
        return idx

    for (label, cfg), r in zip(jobs, results):
        if r.crashed or (r.generated == 0 and not r.violated):
            ctx.save_debug(r, "tlc_gen_%s.txt" % label)
            raise vlib.Inconclusive("TLC failed on ConfigQueryGen/%s (rc=%d): %s" % (label, r.rc, vlib.tail(r.out)))
        ctx.states += r.distinct
        ctx.transitions += r.generated
        res = "ok" if r.no_error else ("violated:" + ",".join(r.violated) if r.violated else "?")
        ctx.model_runs.append({"module": "ConfigQueryGen", "cfg": label, "distinct": r.distinct, "generated": r.generated,
                               "result": res, "wall_s": round(r.wall, 1)})
        ctx.log("model ConfigQueryGen/%s: %d cases, %s (%.1fs)" % (label, r.distinct, res, r.wall))
        got = dumped_cases(r.out)
        if r.violated:
            if label != "rnd":              # "rnd-cases" enumerates every rendering case regardless
                complete = False
            st = violating_state(r)
            if not st or "case" not in st:
                raise vlib.Inconclusive("cannot read the counterexample of ConfigQueryGen/%s" % label)
            bad = from_tla(st["case"])
            inv = r.violated[0][:-3] if r.violated[0].endswith("Inv") else r.violated[0]
            predicted.append((inv, label, add(bad, "model-counterexample:" + inv)))
        elif not r.no_error:
            raise vlib.Inconclusive("TLC did not finish ConfigQueryGen/%s: %s" % (label, vlib.tail(r.out)))
        elif len(got) != r.distinct:
            raise vlib.Inconclusive("ConfigQueryGen/%s: %d cases dumped but %d states" % (label, len(got), r.distinct))
        for c in got:
            add(c)
    nexh = len(cases)
    behs = []
    nsimstates = 0
    for (label, _), rs in zip(simjobs, simresults):
        mine = []
        for f in sorted(glob.glob(os.path.join(rs.dir, "sim", "b_*")), key=vlib._natkey):
            with open(f) as fh:
                mine.append(tlaval.parse_simfile(fh.read()))
        if rs.violated:
            complete = False
            st = violating_state(rs)
            if not st:
                raise vlib.Inconclusive("cannot read the counterexample of ConfigQueryEdit")
            inv = rs.violated[0][:-3] if rs.violated[0].endswith("Inv") else rs.violated[0]
            bad = {"k": st["kind"], "s": st["s"]}
            predicted.append((inv, label, add(bad, "model-counterexample:" + inv)))
        elif not mine or rs.crashed:
            ctx.save_debug(rs, "tlc_sim_ConfigQueryEdit.txt")
            raise vlib.Inconclusive("TLC simulation of ConfigQueryEdit failed: %s" % vlib.tail(rs.out))
        for b in mine:
            for (_, _, st) in b:
                if st.get("kind") in ("str", "par"):
                    nsimstates += 1
                    add({"k": st["kind"], "s": st["s"]}, "simulate")
        behs += mine
    ctx.states += nsimstates
    ctx.model_runs.append({"module": "ConfigQueryEdit", "cfg": "simulate", "behaviours": len(behs), "states": nsimstates,
                           "result": "ok" if not any(rs.violated for rs in simresults) else "violated",
                           "wall_s": round(max(rs.wall for rs in simresults), 1)})
    ctx.log("generated %d cases (%d from exhaustive enumeration, %d behaviours simulated) in %.1fs"
            % (len(cases), nexh, len(behs), time.time() - t0))
    # ---- request sequences against one service: exhaustive model check + simulated scenarios
    rsim, rmods = svcresults[0], svcresults[1:]
    scenarios, spredicted = [], []
    for (label, _), rmod in zip(svc_models, rmods):
        if rmod.crashed or (rmod.generated == 0 and not rmod.violated):
            ctx.save_debug(rmod, "tlc_ConfigQuerySvc.txt")
            raise vlib.Inconclusive("TLC failed on ConfigQuerySvc/%s (rc=%d): %s" % (label, rmod.rc, vlib.tail(rmod.out)))
        ctx.states += rmod.distinct
        ctx.transitions += rmod.generated
        ctx.model_runs.append({"module": "ConfigQuerySvc", "cfg": label, "distinct": rmod.distinct, "generated": rmod.generated,
                               "result": "ok" if rmod.no_error else "violated:" + ",".join(rmod.violated), "wall_s": round(rmod.wall, 1)})
        ctx.log("model ConfigQuerySvc/%s: %d distinct, %d generated, %s (%.1fs)" % (label, rmod.distinct, rmod.generated,
                                                                                    ctx.model_runs[-1]["result"], rmod.wall))
    for r, org in [(x, "model-counterexample") for x in rmods] + [(rsim, "simulation-counterexample")]:
        if r.violated:
            complete = False
            cex = r.counterexample()
            if len(cex) < 2:
                raise vlib.Inconclusive("cannot read the counterexample of ConfigQuerySvc")
            scenarios.append(beh_to_scenario(len(scenarios) + 1, cex, org + ":" + r.violated[0]))
            scenarios[-1].pop("concurrent_material", None)
            spredicted.append((r.violated[0], scenarios[-1]["id"]))
    sbehs = []
    for f in sorted(glob.glob(os.path.join(rsim.dir, "sim", "b_*")), key=vlib._natkey):
        with open(f) as fh:
            sbehs.append(tlaval.parse_simfile(fh.read()))
    if not sbehs and not rsim.violated:
        ctx.save_debug(rsim, "tlc_sim_ConfigQuerySvcGen.txt")
        raise vlib.Inconclusive("TLC simulation of ConfigQuerySvcGen failed: %s" % vlib.tail(rsim.out))
    conc = []
    for b in sbehs:
        if len(b) > 1:
            scenarios.append(beh_to_scenario(len(scenarios) + 10, b))
            if scenarios[-1].pop("concurrent_material"):
                conc.append(scenarios[-1])
    # free-running stress: 16 goroutines issue the requests of a read-only behaviour over and over against the one service;
    # the behaviours with the most look-ups (each re-reads the store) are taken
    conc.sort(key=lambda x: (-sum(1 for st in x["steps"] if st["a"] in ("Resolve", "GetX")), x["id"]))
    for x in conc[:stress_runs]:
        x["origin"] = "simulate-concurrent"
        x["stress"] = {"workers": 16, "repeat": stress_repeat, "filler": 0}
    ctx.model_runs.append({"module": "ConfigQuerySvcGen", "cfg": "simulate", "behaviours": len(sbehs),
                           "result": "ok" if not rsim.violated else "violated", "wall_s": round(rsim.wall, 1)})
    ctx.log("generated %d request sequences (%d requests)" % (len(scenarios), sum(len(x["steps"]) for x in scenarios)))
    ctx.exhaustive = complete
    execute(ctx, esc, cases, origin, nproc, predicted, scenarios, spredicted, binp=binp)
    ctx.extra["cases"] = {"total": len(cases), "exhaustive": nexh, "simulated_behaviours": len(behs)}


def replay(ctx, rep):
    """./check C20 --replay <file>: run the recorded case / request sequence again on the real code and judge it."""
    esc = ctx.deviation_open(DEV_KEY)
    nproc = int(os.environ.get("VERIF_NPROC") or max(2, min(8, vlib.NCPU // 2)))
    execute(ctx, esc, [rep["case"]] if rep.get("case") else [], {}, nproc,
            scenarios=[rep["scenario"]] if rep.get("scenario") else [])


def execute(ctx, esc, cases, origin, nproc, predicted=(), scenarios=(), spredicted=(), binp=None):
    quick = ctx.tier == "quick"
    # ---------------------------------------------------------------- 2. the real code on every case
    binp = binp or ctx.build("configquery")
    cases_file = ctx.path("cases.ndjson")
    trace_file = ctx.path("trace.ndjson")
    ctx.write_ndjson(cases_file, cases)
    scn_file = ctx.path("scenarios.ndjson")
    strace_file = ctx.path("strace.ndjson")
    ctx.write_ndjson(scn_file, list(scenarios))
    out = ctx.run([binp, "-cases", cases_file, "-trace", trace_file, "-scenarios", scn_file, "-strace", strace_file], timeout=1500)
    ctx.log("driver: " + " ".join(out.strip().splitlines()[-2:]))
    if ("scenarios=%d " % len(scenarios)) not in out:
        raise vlib.Inconclusive("driver did not process every request sequence: " + vlib.tail(out, 5))
    if ("cases=%d " % len(cases)) not in out:
        raise vlib.Inconclusive("driver did not process every case: " + vlib.tail(out, 5))

    # ---------------------------------------------------------------- 3. trace validation by TLC (chunks in parallel)
    nlines = 0
    kinds = {}
    corners = []
    firsts = {}
    chunk_max = min(150000, max(25000, (len(cases) + nproc - 1) // nproc))      # about one chunk per TLC process
    chunks, cur, curn = [], None, 0
    with open(trace_file) as fh:
        for line in fh:
            if not line.strip():
                continue
            nlines += 1
            ev = line[line.index('"ev":"') + 6:]
            ev = ev[:ev.index('"')]
            kinds[ev] = kinds.get(ev, 0) + 1
            if ev == "Corner":
                corners.append(json.loads(line))
            elif ev not in firsts and (ev != "Str" or '"abs":"o2/' in line) and (ev != "Par" or '"ok":true' in line):
                firsts[ev] = json.loads(line)       # samples: the first accepted string / parameters, first resolution, first rendering
            if cur is None or curn >= chunk_max:
                if cur:
                    cur.close()
                chunks.append(ctx.path("chunks", "t%d.ndjson" % len(chunks)))
                cur, curn = open(chunks[-1], "w"), 0
            cur.write(line)
            curn += 1
    if cur:
        cur.close()
    if nlines < len(cases):
        raise vlib.Inconclusive("trace has %d lines for %d cases" % (nlines, len(cases)))

    def val(path):
        if path == strace_file:
            return ctx.tlc("ConfigQuerySvcTrace", None, workers=1, env={"TRACE_FILE": path}, timeout=1500, cfg_text=cfg_svc_trace(esc))
        return ctx.tlc("ConfigQueryTrace", None, workers=1, env={"TRACE_FILE": path}, timeout=1500, cfg_text=cfg_trace(esc))

    t0 = time.time()
    viol, drift, consumed = [], [], 0
    vresults = par_run(val, ([strace_file] if scenarios else []) + chunks, nproc)
    rsvc = vresults.pop(0) if scenarios else None
    for path, r in zip(chunks, vresults):
        end = r.records("END")
        if not end or not r.no_error:
            ctx.save_debug(r, "tlc_trace_ConfigQueryTrace.txt")
            raise vlib.Inconclusive("trace validation did not reach the end of %s: %s" % (path, vlib.tail(r.out, 25)))
        nv, nd = end[-1][2], end[-1][3]
        v, d = r.records("VIOL"), r.records("DRIFT")
        if len(v) != nv or len(d) != nd:
            ctx.save_debug(r, "tlc_trace_ConfigQueryTrace.txt")
            raise vlib.Inconclusive("could not read every VIOL/DRIFT record of %s (%d/%d, %d/%d)" % (path, len(v), nv, len(d), nd))
        consumed += end[-1][1]
        ctx.states += r.distinct
        ctx.transitions += r.generated
        viol += v
        drift += d
    if consumed != nlines:
        raise vlib.Inconclusive("trace validation consumed %d of %d lines" % (consumed, nlines))
    ctx.log("validated %d trace lines in %d chunk(s): %d VIOL, %d DRIFT (%.1fs)" % (nlines, len(chunks), len(viol), len(drift),
                                                                                  time.time() - t0))
    # ---- the request sequences
    slines = ctx.read_ndjson(strace_file) if scenarios else []
    sviol, sdrift = [], []
    if rsvc is not None:
        end = rsvc.records("END")
        if not end or not rsvc.no_error or end[-1][1] != len(slines):
            ctx.save_debug(rsvc, "tlc_trace_ConfigQuerySvcTrace.txt")
            raise vlib.Inconclusive("trace validation of ConfigQuerySvcTrace did not reach the end of %s: %s"
                                    % (strace_file, vlib.tail(rsvc.out, 25)))
        sviol, sdrift = rsvc.records("VIOL"), rsvc.records("DRIFT")
        if len(sviol) != end[-1][2]:
            raise vlib.Inconclusive("could not read every VIOL record of ConfigQuerySvcTrace (%d/%d)" % (len(sviol), end[-1][2]))
        ctx.states += rsvc.distinct
        ctx.transitions += rsvc.generated
        ctx.log("validated %d request-sequence trace lines (%d sequences): %d VIOL, %d DRIFT"
                % (len(slines), len(scenarios), len(sviol), len(sdrift)))
    by_id = {x["id"]: x for x in scenarios}
    for x in scenarios:
        ctx.count_case("seq:" + json.dumps([x["content"], x["steps"]], sort_keys=True),
                       nontrivial=sum(1 for st in x["steps"] if st["a"] == "Process") >= 2
                       or any(st["a"] == "ExternalEdit" for st in x["steps"]))
    for d in sdrift:
        ctx.drift.append({"scn": d[1], "line": d[2], "event": d[3], "origin": by_id.get(d[1], {}).get("origin"),
                          "recorded": slines[d[2] - 1] if 0 < d[2] <= len(slines) else None})
    sflagged = set()
    sgroups = {}
    for v in sviol:
        inv, scn, line, detail = v[1], v[2], v[3], v[4]
        sflagged.add(scn)
        api = {"Process": "GetAndProcessComponentConfiguration", "Resolve": "ResolveComponentQuery"}.get(detail[1], "GetComponentConfiguration")
        sgroups.setdefault((inv, api, detail[0]), []).append((scn, line, detail))
    for (inv, api, cause), hits in sorted(sgroups.items()):
        scn, line, detail = hits[0]
        ctx.add_violation({"inv": inv, "api": api, "cause": cause, "scn": scn, "line": line, "requests_flagged": len(hits),
                           "sequences_flagged": len({h[0] for h in hits}), "origin": by_id.get(scn, {}).get("origin"),
                           "request": {k: slines[line - 1].get(k) for k in ("e", "path", "varsReal", "ok", "payload")},
                           "store_now": detail[3] if detail[0] == "store-now" else None},
                          replay_obj={"scenario": by_id.get(scn), "trace": [x for x in slines if x.get("scn") == scn]})
    for (inv, sid) in spredicted:
        if sid not in sflagged:
            raise vlib.Inconclusive("MODEL-UNREPRODUCED: ConfigQuerySvc violates %s but the replayed counterexample (sequence %d) "
                                    "is not flagged on the real code" % (inv, sid))
    for o in slines:
        if o.get("ev") == "Corner" and o.get("name") == "processed-payload-after-import" and o.get("afterimport") == o.get("first") \
                and o.get("afterinvalidate") != o.get("first"):
            ctx.observations.append("template cache: after ImportComponentConfiguration replaced an entry through the same service, "
                                    "GetAndProcessComponentConfiguration kept returning the OLD content (%r) until "
                                    "InvalidateComponentTemplateCache (then %r); GetComponentConfiguration returned the new content "
                                    "at once - the import path does not invalidate the cache (documented protocol assumed by the model)"
                                    % (o.get("afterimport"), o.get("afterinvalidate")))
    for o in slines:
        if o.get("ev") == "Corner" and o.get("name") == "resolution-with-one-failed-existence-check" and not o.get("failed") \
                and o.get("resolved") not in ("", o.get("query")):
            ctx.observations.append("backend fault: when the existence check of the exact, existing entry %s is answered HTTP 500, "
                                    "ResolveComponentQuery silently resolves to the less specific %s (queryToAbsPath drops the error "
                                    "of src.Exists); it never names a non-existing path, which is what is claimed under faults"
                                    % (o.get("query"), o.get("resolved")))
    ctx.extra["request_sequences"] = {"sequences": len(scenarios), "requests": sum(len(x["steps"]) for x in scenarios),
                                      "concurrent_sequences": sum(1 for x in scenarios if x.get("stress")),
                                      "trace_lines": len(slines)}
    if scenarios:
        ctx.sample({"request_sequence": scenarios[-1], "trace": [x for x in slines if x.get("scn") == scenarios[-1]["id"]][:6]})

    ctx.traces = len(cases) + len(scenarios)
    ctx.extra["trace_lines"] = nlines
    ctx.extra["trace_kinds"] = kinds
    for c in cases:
        ctx.count_case(canon(c))

    # ---------------------------------------------------------------- 4. verdict
    need = {x[2] for x in viol} | {x[1] for x in drift}
    recorded = {}
    if need:
        with open(trace_file) as fh:
            for line in fh:
                o = json.loads(line)
                if o.get("scn") in need:
                    recorded[o["scn"]] = o
    for d in drift:
        ctx.drift.append({"scn": d[1], "event": d[3], "what": d[4], "case": cases[d[1] - 1] if 0 < d[1] <= len(cases) else None})
    flagged = set()
    groups = {}             # one reported violation per (formula, API, cause); every flagged case is counted
    for v in viol:
        inv, scn, detail = v[1], v[2], v[4]
        flagged.add((inv, scn))
        c = cases[scn - 1]
        api = detail[0] if c["k"] in ("str", "par") else {"res": "ResolveComponentQuery", "fld": "ResolveComponentQuery", "rnd": "GetAndProcessComponentConfiguration"}[c["k"]]
        cause = detail[0] if c["k"] == "rnd" else "-"
        groups.setdefault((inv, api, cause), []).append(scn)
    for (inv, api, cause), scns in sorted(groups.items()):
        scn = scns[0]
        c = cases[scn - 1]
        inp = recorded.get(scn, {}).get("str") if c["k"] in ("str", "par") else canon(c)
        ctx.add_violation({"inv": inv, "api": api, "cause": cause, "input": inp, "scn": scn, "cases_flagged": len(scns),
                           "origin": origin.get(scn, "enumerated")},
                          replay_obj={"case": c, "trace": recorded.get(scn)})
    # a model counterexample counts only if the monitor flags the recorded run of the real code
    for (inv, label, scn) in predicted:
        if scn is None or (inv, scn) not in flagged:
            raise vlib.Inconclusive("MODEL-UNREPRODUCED: ConfigQueryGen/%s violates %s on %s but the real code's recorded result "
                                    "does not" % (label, inv, json.dumps(cases[scn - 1]) if scn else "?"))

    # ---------------------------------------------------------------- observations (measured, outside the property's quantifier)
    for o in corners:
        n = o.get("name")
        if n == "folder-shadows-entry" and o.get("resolved") == o.get("query") and not o.get("getok"):
            ctx.observations.append("file backend: a FOLDER at the exact path counts as existing - %s resolves to itself although only "
                                    "%s/e and the entry c/ANY/any/sub exist, and its payload cannot be read" % (o["query"], o["query"]))
        elif n == "trailing-slash" and o.get("resolved"):
            ctx.observations.append("file backend: query %s resolves to %s and returns the payload of the entry without the trailing "
                                    "'/' (the backend trims it; the printed form is unchanged)" % (o["query"], o["resolved"]))
        elif n == "dot-in-entry" and not o.get("parsed"):
            ctx.observations.append("NewQuery rejects %s: '.' is not in the entry character class" % o["query"])
        elif n == "non-identifier-variable-name" and o.get("getok") and not o.get("procok"):
            ctx.observations.append("a supplied variable whose name is not [a-zA-Z0-9_]+ (e.g. 'a-b', accepted by "
                                    "NewQueryParameters) makes GetAndProcessComponentConfiguration fail for every template")
        elif n == "variable-named-like-utility" and o.get("procok") and o.get("payload") != "mine":
            ctx.observations.append("a supplied variable named like a utility namespace (strings, json, uid, util, ...) is shadowed: "
                                    "{{ strings }} rendered %r instead of the supplied value" % o.get("payload"))
    for ev in ("Str", "Par", "Res", "Rnd"):
        if ev in firsts:
            ctx.sample({"trace_line": firsts[ev]})
    if recorded:
        ctx.sample({"flagged_line": next(iter(recorded.values()))})
