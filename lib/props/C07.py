"""C07 - run numbers are unique and strictly increasing.

Model: spec/RunCounter.tla (exhaustive, TLC): the Consul key (value + ModifyIndex), Consul's CAS rules,
concurrent calls of GetNextUInt32 (consistent GET, increment, CAS), a monotone foreign writer, callers that
die, requests that fail, restarts.
Binding: schedules generated from the model by TLC (spec/RunCounterGen.tla: exhaustive enumeration of every
interleaving for two calls, seeded simulation for three, plus model counterexamples) are imposed on the real
apricot/local.Service.NewRunNumber / cfgbackend.ConsulSource.GetNextUInt32 by harness/fakeconsul, which parks
every KV request (harness/cmd/runcounter); the recorded runs are validated by TLC against
spec/RunCounterTrace.tla (conformance + property monitor).
"""
import json
import os

import c07_env
import vlib

DEV_KEY = "uint32-wrap"
MAXU = 1999999999          # image of 2^32-1 under the recording map of the driver
WORKERS = min(4, vlib.NCPU)

INVS = "TypeOK Unique Increasing RealTime FailNotReuse NoNumberWithoutCas UndisturbedSucceeds KvBound"


def tla_set(xs, quote=False):
    return "{" + ", ".join(('"%s"' % x) if quote else str(x) for x in xs) + "}"


def cfg_model(wrap, clients, maxu=100, absent=True, initvals=(5,), foreign=1, jump=1, fault=2, restart=1,
              variant="cas", stale=False, invs=INVS, symmetry=True, spec="Spec", extra="", quote=False):
    return """SPECIFICATION %s
CONSTANTS
  Clients = %s
  MaxU = %d
  WrapDefect = %s
  Variant = "%s"
  StaleReads = %s
  InitAbsent = %s
  InitVals = %s
  BaseIdx = 7
  MaxForeign = %d
  ForeignJump = %d
  MaxFault = %d
  MaxRestart = %d
%s
%s
%s
CHECK_DEADLOCK FALSE
""" % (spec, tla_set(clients, quote), maxu, "TRUE" if wrap else "FALSE", variant, "TRUE" if stale else "FALSE",
       "TRUE" if absent else "FALSE", tla_set(initvals), foreign, jump, fault, restart,
       "SYMMETRY Sym" if symmetry else "", ("INVARIANTS " + invs) if invs else "", extra)


def cfg_gen(wrap, clients, enumerate_paths, **kw):
    extra = "INVARIANT EmitPath\nCONSTRAINT StopAtTerminal" if enumerate_paths else ""
    return cfg_model(wrap, clients, maxu=MAXU, invs="", symmetry=False, spec="GenSpec", extra=extra, quote=True, **kw)


def cfg_trace(wrap):
    return cfg_model(wrap, ["c1", "c2", "c3", "c4"], maxu=MAXU, absent=True, initvals=(), foreign=100000, jump=100000,
                     fault=100000, restart=100000, invs="", symmetry=False, spec="TraceSpec", extra="INVARIANT PrintEnd",
                     quote=True)


def steps_of_path(h):
    """h: [["Init", present, val, idx, gidx], ["Start", "c1"], ...] as printed by the generator."""
    init = {"present": bool(h[0][1]), "val": h[0][2], "idx": h[0][3], "gidx": h[0][4]}
    steps = []
    for e in h[1:]:
        s = {"a": e[0]}
        if e[0] == "ForeignWrite":
            s["v"] = e[1]
        elif e[0] != "Restart":
            s["c"] = e[1]
        if e[0] == "NetFail":
            s["how"] = e[2]
        steps.append(s)
    return init, steps


def scenario_of_counterexample(cex):
    st0 = cex[0][2]
    kv = st0["kv"]
    init = {"present": bool(kv["present"]), "val": kv["val"], "idx": kv["idx"], "gidx": st0["gidx"]}
    steps = []
    prev = st0
    for (name, args, st) in cex[1:]:
        if name == "Next" and st["nforeign"] > prev["nforeign"]:
            # TLC cannot name the disjunct \E v \in ForeignVals : ForeignWrite(v) (state-dependent set)
            name, args = "ForeignWrite", [str(st["kv"]["val"])]
        prev = st
        s = {"a": name}
        if name == "ForeignWrite":
            s["v"] = int(args[0])
        elif name != "Restart":
            s["c"] = args[0].strip('"')
        if name == "NetFail":
            s["how"] = "500"
        steps.append(s)
    return init, steps


def nontrivial(steps):
    """an environment action, or two calls in flight at the same time"""
    inflight = set()
    for s in steps:
        if s["a"] in ("ForeignWrite", "Crash", "NetFail", "Restart"):
            return True
        if s["a"] == "Start":
            inflight.add(s["c"])
            if len(inflight) > 1:
                return True
        if s["a"] == "Return":
            inflight.discard(s["c"])
    return False


def run(ctx):
    wrap = ctx.deviation_open(DEV_KEY)
    quick = ctx.tier == "quick"
    ctx.assumptions += [
        "Consul behaves as documented: one global index, ?cas=0 succeeds iff the key is absent, ?cas=n iff ModifyIndex=n, "
        "?consistent reads see every completed write (harness/fakeconsul implements exactly this)",
        "foreign writers of the key are monotone (they never write a smaller value, never delete the key): against a "
        "decreasing writer no protocol can keep the property",
        "a crash of the caller is a call whose pending request is never answered; a network fault is HTTP 500 or a closed "
        "connection, before or after the request took effect",
        "numbers are recorded through an order- and successor-preserving map (TLC integers are 32 bit): 2^32-1 is recorded "
        "as 1999999999; values between 10^9 and 2^32-10^9 do not occur in the scenarios",
        "the file-backend counter (runcounter.txt, marked unsafe in the code) is not the shared counter of the property",
        "whoever else writes the key writes a decimal uint32; core/environment's cancellation of START_ACTIVITY on an error of "
        "NewRunNumber is not executed here (that is the whole-core simulation's part)",
    ]
    ctx.rule = ("scenario = a maximal behaviour of RunCounterGen at the granularity of KV requests (Start/Read/Cas/Return of each "
                "call, ForeignWrite, Crash, NetFail, Restart), obtained by exhaustive TLC enumeration (2 calls) or seeded TLC "
                "simulation (3 calls) or as a model counterexample, replayed on the real NewRunNumber/GetNextUInt32 with every "
                "request parked in the fake Consul; non-trivial = two calls overlap or the environment acts; distinct = "
                "distinct initial key + step sequence")

    # ---------------- 1. exhaustive model checking ----------------
    c3 = ["c1", "c2", "c3"]
    if quick:
        r = ctx.model_check("RunCounter", None, workers=WORKERS, cfg_text=cfg_model(wrap, c3))
    else:
        r = ctx.model_check("RunCounter", None, workers=WORKERS, extra=["-coverage", "1"],
                            cfg_text=cfg_model(wrap, c3, initvals=(0, 5), foreign=2, jump=2, fault=2, restart=1, symmetry=False))
        ctx.zero_cov = r.coverage_zero()
        r4 = ctx.model_check("RunCounter", None, workers=WORKERS,
                             cfg_text=cfg_model(wrap, ["c1", "c2", "c3", "c4"], foreign=1, jump=1, fault=1, restart=1))
        if r4.violated and not r.violated:
            r = r4
    if r.violated:   # a counterexample found under symmetry reduction may not be a behaviour: get a clean one
        r = ctx.model_check("RunCounter", None, workers=WORKERS, cfg_text=cfg_model(wrap, c3, symmetry=False))
    scenarios = []
    sid = 0

    def add(init, steps, origin):
        nonlocal sid
        sid += 1
        scenarios.append({"id": sid, "origin": origin, "mode": ("svc", "src", "rpc")[sid % 3], "init": init, "steps": steps})
        return scenarios[-1]

    predicted = []   # (scenario id, model invariant, monitor invariant)
    monitor_name = {"RealTime": "Increasing"}
    if r.violated:
        init, steps = scenario_of_counterexample(r.counterexample())
        s = add(init, steps, "model-counterexample:" + r.violated[0])
        predicted.append((s["id"], r.violated[0], monitor_name.get(r.violated[0], r.violated[0])))
    # boundary of the counter type (small MaxU in the model; the scenario is mapped to the real boundary)
    rb = ctx.model_check("RunCounter", None, workers=1,
                         cfg_text=cfg_model(wrap, ["c1", "c2"] if quick else c3, maxu=7, absent=False, initvals=(5, 6, 7),
                                            foreign=1, fault=1, restart=0, symmetry=False,
                                            invs="TypeOK RealTime Unique FailNotReuse NoNumberWithoutCas UndisturbedSucceeds"))
    if rb.violated:
        init, steps = scenario_of_counterexample(rb.counterexample())
        init["val"] += MAXU - 7
        for st in steps:
            if "v" in st:
                st["v"] += MAXU - 7
        s = add(init, steps, "model-counterexample:boundary:" + rb.violated[0])
        predicted.append((s["id"], rb.violated[0], monitor_name.get(rb.violated[0], rb.violated[0])))
    if not quick:
        # reads without ?consistent: the protocol stays safe (observation, model only)
        rs = ctx.model_check("RunCounter", None, workers=WORKERS, cfg_text=cfg_model(wrap, c3, stale=True))
        if rs.no_error:
            ctx.observations.append("model: the invariants also hold when reads may be stale (GET without ?consistent): the CAS on "
                                    "ModifyIndex alone protects the counter; RequireConsistent only avoids spurious failures")
        else:
            ctx.observations.append("model: with stale reads the model violates %s" % ",".join(rs.violated))
    # non-vacuity of the invariants: deliberately broken protocols must violate them in the model
    mm = {}
    for variant in ["put", "ignoreok", "cas0"]:
        rv = ctx.tlc("RunCounter", None, workers=WORKERS, cfg_text=cfg_model(wrap, ["c1", "c2"], variant=variant, fault=0, restart=0))
        mm[variant] = rv.violated[0] if rv.violated else "not detected"
    ctx.extra["model_variants_detected_by"] = mm
    if any(v == "not detected" for v in mm.values()):
        raise vlib.Inconclusive("the model's invariants do not reject a broken protocol variant: %s" % mm)

    # ---------------- 2. scenario generation from the model ----------------
    def enumerate_paths(origin, clients, **kw):
        rr = ctx.tlc("RunCounterGen", None, workers=1, cfg_text=cfg_gen(wrap, clients, True, **kw), timeout=600)
        if not rr.no_error:
            ctx.save_debug(rr, "tlc_gen.txt")
            raise vlib.Inconclusive("path enumeration failed: " + vlib.tail(rr.out))
        paths = rr.records("PATH")
        if not paths:
            raise vlib.Inconclusive("path enumeration produced nothing")
        for p in paths:
            init, steps = steps_of_path(p[1])
            add(init, steps, origin)
        ctx.log("enumerated %d paths (%s)" % (len(paths), origin))
        return len(paths)

    def simulate(origin, clients, num, **kw):
        behs = ctx.simulate("RunCounterGen", None, num, 60, cfg_text=cfg_gen(wrap, clients, False, **kw),
                            seed=ctx.seed * 7919 + sid)
        for b in behs:
            init, steps = steps_of_path(b[-1][2]["h"])
            add(init, steps, origin)

    c2 = ["c1", "c2"]
    gen_counts = {}
    if quick:
        gen_counts["2calls+foreign"] = enumerate_paths("enum:2calls+foreign", c2, initvals=(41,), foreign=1, fault=0, restart=0)
        gen_counts["2calls+fault"] = enumerate_paths("enum:2calls+fault", c2, initvals=(41,), foreign=0, fault=1, restart=0)
        nsim = 150
    else:
        gen_counts["2calls+foreign+fault+restart"] = enumerate_paths("enum:2calls+foreign+fault+restart", c2, initvals=(41,),
                                                                     foreign=1, fault=1, restart=1)
        gen_counts["3calls"] = enumerate_paths("enum:3calls", c3, absent=False, initvals=(41,), foreign=0, fault=0, restart=0)
        nsim = 1500
    gen_counts["boundary"] = enumerate_paths("enum:boundary", c2, absent=False, initvals=(MAXU - 1, MAXU), foreign=0,
                                             fault=0 if quick else 1, restart=0)
    simulate("sim:3calls", c3, nsim, initvals=(0, 41, MAXU - 2), foreign=2, jump=2, fault=2, restart=1)
    simulate("sim:3calls-nofault", c3, nsim // 3, initvals=(41,), foreign=1, jump=1, fault=0, restart=0)
    gen_counts["simulated"] = nsim + nsim // 3

    # free schedules: every order in which the KV requests of the calls can be served, whatever requests the code
    # issues (token = "the next pending request of that call"; a call's first token starts it). Unlike the families
    # above these do not presuppose the model's request pattern, so a change that adds or reorders requests is
    # explored under the same interleavings; the monitor judges the numbers returned.
    import itertools

    def free(origin, clients, length, inits, limit=None, rng=None):
        seqs = list(itertools.product(clients, repeat=length))
        if limit and len(seqs) > limit:
            seqs = rng.sample(seqs, limit)
        k = 0
        for init in inits:
            for seq in seqs:
                started, steps = set(), []
                for c in list(seq) + [c for c in clients for _ in range(3)]:
                    if c in started:
                        steps.append({"a": "Go", "c": c})
                    else:
                        started.add(c)
                        steps.append({"a": "Start", "c": c})
                add(dict(init), steps, origin)
                k += 1
        return k

    import random as _random
    frng = _random.Random(ctx.seed * 977 + 1)
    absent = {"present": False, "val": 0, "idx": 0, "gidx": 7}
    present = {"present": True, "val": 41, "idx": 7, "gidx": 7}
    gen_counts["free:2calls"] = free("free:2calls", c2, 6 if quick else 8, [absent, present])
    gen_counts["free:3calls"] = free("free:3calls", c3, 8 if quick else 9, [absent, present], limit=150 if quick else 3000, rng=frng)

    # free-running: callers of ONE core racing on one service object, every log call a scheduling point (no schedule imposed)
    nstress = 0
    for mode in ("svc", "rpc", "src"):
        for k in range(2 if quick else 8):
            sid += 1
            nstress += 1
            scenarios.append({"id": sid, "origin": "stress", "mode": mode, "init": present if k % 2 else absent, "steps": [],
                              "stress": {"callers": 4, "calls": 60 if quick else 250, "seed": frng.randint(1, 1 << 30)}})
    gen_counts["stress"] = nstress

    # ---------------- 3. replay on the real code ----------------
    binp = ctx.build("runcounter")
    scn_file = ctx.path("scenarios.ndjson")
    trace_file = ctx.path("trace.ndjson")
    ctx.write_ndjson(scn_file, scenarios)
    out = ctx.run([binp, "-scenarios", scn_file, "-trace", trace_file], timeout=1500)
    ctx.log("replayed: " + out.strip())
    lines = ctx.read_ndjson(trace_file)
    herr = [x for x in lines if x["ev"] == "HarnessError"]
    if herr:
        raise vlib.Inconclusive("harness-internal error in %d scenario(s), e.g. %s" % (len(herr), json.dumps(herr[0])))
    by_id = {s["id"]: s for s in scenarios}
    for s in scenarios:
        ctx.count_case(json.dumps([s["init"], s["steps"]], sort_keys=True), nontrivial=nontrivial(s["steps"]))
    ex = next((s for s in scenarios if s["origin"].startswith("enum") and nontrivial(s["steps"])), scenarios[0])
    ctx.sample({"scenario": {k: ex[k] for k in ("id", "origin", "mode", "init")},
                "steps": [[st["a"], st.get("c", st.get("v", ""))] for st in ex["steps"]]})
    ctx.sample({"trace_of_scenario": [
        {k: x[k] for k in ("ev", "c", "req", "ret", "rok", "n", "kv", "gidx") if k in x}
        for x in lines if x.get("scn") == ex["id"] and x["ev"] not in ("Reset", "End")][:8]})

    # ---------------- 4. trace validation (conformance + monitor) by TLC ----------------
    viol, drift, tr = ctx.validate("RunCounterTrace", None, trace_file, cfg_text=cfg_trace(wrap), timeout=1500)
    ctx.traces = len(scenarios)
    ctx.extra["trace_lines"] = len(lines)
    ctx.extra["scenarios"] = gen_counts
    ctx.extra["kv_requests_observed"] = sum(1 for x in lines if x["ev"] in ("Read", "Cas", "Extra"))
    ctx.extra["numbers_returned"] = sum(1 for x in lines if x.get("rok"))
    ctx.exhaustive = False
    ctx.extra["exhaustive_part"] = ("every interleaving of the request-level steps of 2 calls with " +
                                    ("1 foreign write or 1 fault" if quick else "1 foreign write, 1 fault and 1 restart; every "
                                     "interleaving of 3 undisturbed calls") + " was enumerated by TLC and replayed")

    def trace_of(scn):
        return [x for x in lines if x.get("scn") == scn]

    def cause_of(scn, lineno):
        """the uint32 wrap: the number returned is 0 and the call had read 2^32-1"""
        x = lines[lineno - 1]
        if x.get("n") == 0 and x.get("rok"):
            for y in trace_of(scn):
                if y.get("c") == x.get("c") and y["ev"] in ("Read", "Extra") and y["req"]["m"] == "GET" and y["req"]["rv"] == MAXU:
                    return "uint32-wrap"
        return ""

    for d in drift:
        s = by_id.get(d[1], {})
        ctx.drift.append({"scn": d[1], "line": d[2], "event": d[3], "origin": s.get("origin", "?")})
    seen = set()
    for v in viol:
        inv, scn, line = v[1], v[2], v[3]
        if (inv, scn) in seen:
            continue
        seen.add((inv, scn))
        s = by_id.get(scn, {})
        ctx.add_violation({"inv": inv, "scn": scn, "line": line, "cause": cause_of(scn, line), "detail": v[4],
                           "origin": s.get("origin", "?")}, replay_obj={"scenario": s, "trace": trace_of(scn)})
    # a model counterexample must reproduce on the implementation
    for (pid, minv, moninv) in predicted:
        if not [v for v in viol if v[2] == pid and v[1] == moninv]:
            msg = ("MODEL-UNREPRODUCED: model violates %s but the replayed counterexample (scenario %d) did not violate %s"
                   % (minv, pid, moninv))
            if not ctx.violations:
                raise vlib.Inconclusive(msg)
            ctx.observations.append(msg)   # the tree misbehaves in other ways: report those

    # ---------------- 5. environment level: START_ACTIVITY and the counter, on the real core ----------------
    c07_env.run(ctx)


def replay(ctx, obj):
    if obj.get("kind") == "env":
        return c07_env.replay(ctx, obj)
    wrap = ctx.deviation_open(DEV_KEY)
    s = obj["scenario"]
    binp = ctx.build("runcounter")
    scn_file, trace_file = ctx.path("scenarios.ndjson"), ctx.path("trace.ndjson")
    ctx.write_ndjson(scn_file, [s])
    ctx.run([binp, "-scenarios", scn_file, "-trace", trace_file], timeout=300)
    viol, drift, _tr = ctx.validate("RunCounterTrace", None, trace_file, cfg_text=cfg_trace(wrap), timeout=300)
    lines = ctx.read_ndjson(trace_file)
    for v in viol:
        ctx.add_violation({"inv": v[1], "scn": v[2], "line": v[3], "cause": "", "detail": v[4], "origin": s.get("origin", "?")},
                          replay_obj={"scenario": s, "trace": lines})
