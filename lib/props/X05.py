"""X05 - beyond the listed properties: what the DCS integration plugin does with the DCS service around a run
(core/integration/dcs: plugin.go CallStack PrepareForRun / StartOfRun / EndOfRun / Cleanup - each a gRPC call answered by a stream of
per-detector RunEvents -, the bookkeeping pendingEORs, the detector cache fed by the Subscribe stream (HEARTBEAT, STATE_CHANGE_EVENT),
structs.go compatibleWithDCSOperation (the availability gate), GetEnvironmentsData) and the DCS gateway's own view.

Model: spec/DcsRun.tla, one action per linearization point (the request reaching the gateway, each stream event, the end of the stream,
each Subscribe event), exhaustive with TLC.  Properties: a hook whose request was sent succeeds iff every requested detector's last
word is RUN_OK when the stream ends (EOF, deadline or error alike); a failing hook names the detectors that made it fail; nothing is
requested for detectors outside dcs_detectors; PFR leaves out exactly the detectors cached as not PFR_AVAILABLE, SOR is not sent while
one is not SOR_AVAILABLE; EOR goes once to exactly the detectors that got the SOR of that run; pendingEORs is exactly the gateway's view
while no call failed to open; what is in a run at the gateway has its EOR pending; after a Cleanup nothing of the environment is in a
run; SorSuccessful is true only after a successful SOR.  The repaired design (all Code_* = FALSE) satisfies all of them; for the code
as it is TLC refutes seven, each is replayed on the real plugin and reported as an OBSERVATION when the recorded run shows it.

Binding: behaviours of the model (tlc -simulate on spec/DcsRunGen.tla, seeded, plus TLC's counterexamples) run on the REAL plugin
(harness/cmd/dcsrun: dcs.NewPlugin + Init against an in-process fake DCS gateway speaking the real dcs.proto; every event and every end
of every stream is sent when the scenario says so; the hooks are the plugin's own CallStack functions invoked with real *callable.Call
values); requests, stream events, how each hook returned (failed, detectors named in __call_error_reason), pendingEORs, the gateway's
table, the detector cache (GetData) and SorSuccessful (GetEnvironmentsData) are recorded and validated by TLC against
spec/DcsRunTrace.tla in one pass: strict conformance (DRIFT) and the properties as soft invariants on the recorded facts (VIOL).

Not a listed property: not registered in MANIFEST.json; evidence goes to evidence/extra/X05.json."""
import json
import os
import shutil
import subprocess
import time

import vlib

LEVEL = "model_checking"

CODE = ["Code_FailureEventSticks", "Code_ForeignEventDecides", "Code_ReasonOverwritten", "Code_EorHookUnconditional",
        "Code_CleanupForgetsOnOpenFailure", "Code_EorClearsAnyPending", "Code_SorSuccessfulMeansPending", "Code_PfrPartial"]
HOLD = ("TypeOK OkImpliesAllAcked UnackedNamed RequestWithinEnv PfrSkipsUnavailableOnly SorGate NoEorTwice PendingExact")
ALL = (HOLD + " EorClearsOwnRunOnly AllAckedImpliesOk NoStickyFailure ForeignEventsIgnored FailedDetectorsNamed EorMatchesSor NothingForgotten "
       "CleanupLeavesNothing SorSuccessfulTruthful PfrCoversAll")

# deviation of the code -> (the targeted property TLC refutes for the code as it is, what to say)
DEV = {
    "Code_FailureEventSticks": ("NoStickyFailure",
        "a SOR_FAILURE / *_UNAVAILABLE / TIMEOUT event sets __call_error at once and nothing clears it: the hook fails although the "
        "detector reported RUN_OK afterwards and every requested detector had acknowledged when the stream ended"),
    "Code_ForeignEventDecides": ("ForeignEventsIgnored",
        "a failure event naming a detector that is NOT in the request (every event is written into the status map and judged before the "
        "request is consulted) makes the hook fail although every requested detector acknowledged RUN_OK"),
    "Code_ReasonOverwritten": ("FailedDetectorsNamed",
        "every failure event and the final summary overwrite __call_error_reason: a detector whose failure event made the hook fail (it "
        "recovered, another one did not acknowledge) is not named in the error the hook leaves"),
    "Code_EorHookUnconditional": ("EorMatchesSor",
        "the EndOfRun hook does not consult pendingEORs: after a StartOfRun that was never sent (gate closed or call failed, non-critical "
        "hook) it sends EOR for run_number to detectors that never got a SOR"),
    "Code_CleanupForgetsOnOpenFailure": ("CleanupLeavesNothing",
        "Cleanup deletes the pending EOR after eorFunc returns whatever happened: when the EndOfRun call could not be opened the detectors "
        "stay in the run at the DCS, the plugin has forgotten them and a second Cleanup does nothing"),
    "Code_EorClearsAnyPending": ("EorClearsOwnRunOnly",
        "pendingEORs is keyed by the environment alone and the entry is deleted as soon as ANY EndOfRun call of the environment is open: "
        "when the EOR of run n could not be opened (non-critical hook) and the environment goes on, the EOR of run n+1 discards the pending "
        "EOR of run n - the detectors stay in run n at the DCS and Cleanup no longer sends it"),
    "Code_SorSuccessfulMeansPending": ("SorSuccessfulTruthful",
        "GetEnvironmentsData sets PartitionInfo.SorSuccessful to 'a pending EOR exists', which is true from the moment the SOR stream opens "
        "and stays true after a FAILED StartOfRun"),
    "Code_PfrPartial": ("PfrCoversAll",
        "PrepareForRun silently leaves out the detectors cached as PFR_UNAVAILABLE (after sleeping 1 s) and succeeds without them - by "
        "design (the code calls it a partial PFR), yet the hook reports success for dcs_detectors it never prepared"),
}

E1 = '{"e1"}'
E2 = '{"e1", "e2"}'
UNI = ('{"ITS", "TPC"}', '{"MFT"}', '{"TOF"}')      # dcs_detectors of e1, of e2, detectors of nobody


def cfg_model(envs, other, maxrun, maxev, maxsub, maxfaults, evstates, ends, code, invs, spec="Spec"):
    """code: True/False for all constants, or a dict constant -> bool."""
    c = {k: (code if isinstance(code, bool) else code.get(k, True)) for k in CODE}
    return ("SPECIFICATION %s\nCONSTANTS\n  Envs = %s\n  D1 = %s\n  D2 = %s\n  Other = %s\n  MaxRun = %d\n  MaxEv = %d\n  MaxSub = %d\n"
            "  MaxFaults = %d\n  MaxPfr = 1\n  EvStates = %s\n  Ends = %s\n%s%sCHECK_DEADLOCK FALSE\n"
            % (spec, envs, UNI[0], UNI[1], other, maxrun, maxev, maxsub, maxfaults, evstates, ends,
               "".join("  %s = %s\n" % (k, "TRUE" if v else "FALSE") for k, v in c.items()),
               ("INVARIANTS %s\n" % invs) if invs else ""))


def split_witnesses(out):
    """Output of `tlc -continue`: {invariant: [behaviour, ...]}, one behaviour per reported violation."""
    import re
    import tlaval
    parts = re.split(r"(?m)^Error: Invariant ([A-Za-z0-9_]+) is violated\.", out)
    res = {}
    for k in range(1, len(parts), 2):
        beh = tlaval.parse_counterexample(parts[k + 1])
        if beh:
            res.setdefault(parts[k], []).append(beh)
    return res


def tlc_parallel(ctx, jobs, par=6, workers=2, timeout=900):
    """Run several exhaustive TLC jobs side by side (each in its own scratch directory). jobs: list of (label, module, cfg_text, flags).
    Returns {label: TlcResult}; accounts states / model_runs like ctx.model_check."""
    res = {}
    pend = list(jobs)
    running = []
    e = dict(os.environ)
    e["JAVA_TOOL_OPTIONS"] = (e.get("JAVA_TOOL_OPTIONS", "") + " -Xss64m -Xmx4g").strip()
    try:
        return _tlc_parallel(ctx, pend, running, res, e, par, workers, timeout)
    finally:
        for it in running:      # an error above: do not leave the other jobs behind (timeout forwards the signal to TLC)
            it[2].terminate()
        for it in running:
            try:
                it[2].wait(timeout=30)
            except subprocess.TimeoutExpired:
                it[2].kill()
            it[3].close()


def _tlc_parallel(ctx, pend, running, res, e, par, workers, timeout):
    while pend or running:
        while pend and len(running) < par:
            label, module, cfg, flags = pend.pop(0)
            ctx.ntlc += 1
            d = os.path.join(ctx.work, "tlc%d" % ctx.ntlc)
            os.makedirs(d)
            for f in ("DcsRun.tla", "DcsRunGen.tla"):
                shutil.copy(os.path.join(vlib.SPEC, f), d)
            with open(os.path.join(d, "run.cfg"), "w") as fh:
                fh.write(cfg)
            out = open(os.path.join(d, "out.txt"), "w")
            p = subprocess.Popen(["timeout", str(timeout), "tlc", "-workers", str(workers), "-metadir", os.path.join(d, "md"),
                                  "-config", "run.cfg"] + flags + [module + ".tla"], cwd=d, env=e, stdout=out, stderr=subprocess.STDOUT)
            running.append((label, module, p, out, d, time.time()))
        time.sleep(0.2)
        for it in list(running):
            label, module, p, out, d, t0 = it
            if p.poll() is None:
                continue
            running.remove(it)
            out.close()
            with open(os.path.join(d, "out.txt")) as fh:
                text = fh.read()
            r = vlib.TlcResult(text, p.returncode, time.time() - t0)
            r.dir = d
            if p.returncode == 124:
                raise vlib.Inconclusive("TLC timeout after %ss on %s (%s)" % (timeout, module, label))
            if "java.lang.OutOfMemoryError" in text or "StackOverflowError" in text:
                raise vlib.Inconclusive("TLC resource failure on %s (%s)" % (module, label))
            if r.crashed or (r.generated == 0 and not r.violated):
                ctx.save_debug(r, "tlc_%s_%s.txt" % (module, label))
                raise vlib.Inconclusive("TLC failed on %s (%s, rc=%d): %s" % (module, label, r.rc, vlib.tail(r.out)))
            ctx.states += r.distinct
            ctx.transitions += r.generated
            result = ("violated:" + ",".join(sorted(set(r.violated))) if r.violated else
                      ("ok" if r.no_error else ("deadlock" if r.deadlock else "?")))
            ctx.model_runs.append({"module": module, "cfg": label, "distinct": r.distinct, "generated": r.generated, "result": result,
                                   "wall_s": round(r.wall, 1)})
            ctx.log("model %s/%s: %d distinct, %d generated, %s (%.1fs)" % (module, label, r.distinct, r.generated, result, r.wall))
            res[label] = r
    return res



# ---------- behaviours -> scenarios ----------
def q(s):
    return s.strip().strip('"')


def beh_to_scenario(sid, beh, origin):
    """beh: list of (action, args, state) with the initial state first."""
    steps = []
    events_in_call = {}
    for (name, args, st) in beh[1:]:
        name = name[2:] if name.startswith("G_") else name
        a = [q(x) for x in args]
        if name == "Heartbeat":
            steps.append({"k": "hb", "d": a[0], "p": a[1], "v": a[2]})
        elif name == "StateChange":
            steps.append({"k": "sc", "d": a[0], "p": a[1], "v": a[2]})
        elif name == "NewRun":
            rn = st.get("rn") or {}
            steps.append({"k": "ecs", "e": a[0], "fn": "NewRun", "r": int(rn.get(a[0], rn.get('"%s"' % a[0])))})
        elif name in ("EndRun", "GoError", "Destroy"):
            steps.append({"k": "ecs", "e": a[0], "fn": name})
        elif name == "Open":
            steps.append({"k": "open", "e": a[0], "fn": a[1], "f": a[2], "c": a[3]})
            events_in_call[a[0]] = 0
        elif name == "Event":
            steps.append({"k": "ev", "e": a[0], "d": a[1], "s": a[2]})
            events_in_call[a[0]] = events_in_call.get(a[0], 0) + 1
        elif name == "End":
            how = a[1]
            # a deadline that expires before any event, right after the call opened: let the hook's own (short) deadline expire
            if how == "tmo" and steps and steps[-1]["k"] == "open" and steps[-1]["e"] == a[0] and steps[-1]["f"] == "ok":
                steps[-1]["to"] = "500ms"
                how = "ctmo"
            steps.append({"k": "end", "e": a[0], "how": how, "c": a[2]})
        else:
            raise vlib.Inconclusive("behaviour with an action the harness cannot impose: %s" % name)
    # a short deadline only where the model really ended the call at once (an open that returned immediately has no stream)
    return {"id": sid, "dets": {"e1": ["ITS", "TPC"], "e2": ["MFT"]}, "other": ["TOF"], "steps": steps, "origin": origin}


def nontrivial(s):
    return any(st["k"] in ("ev", "hb", "sc") or st.get("f") == "fail" or st.get("how", "eof") != "eof" for st in s["steps"])


def canon(s):
    return json.dumps(s["steps"], sort_keys=True)


def cfg_trace(maxrun):
    return (cfg_model(E2, UNI[2], maxrun, 1000000, 1000000, 1000000, '{"OK", "FAIL", "UNAV", "TMO", "PROG"}',
                      '{"eof", "tmo", "grpc", "unk"}', True, None, spec="TraceSpec").replace("MaxPfr = 1", "MaxPfr = 1000000")
            + "INVARIANT PrintEnd\n")


def execute(ctx, binp, scenarios, name, shards=1):
    """Run the scenarios on the real plugin (shards processes side by side); returns the recorded lines."""
    parts = [scenarios[i::shards] for i in range(shards)]
    procs = []
    for i, part in enumerate(parts):
        if not part:
            continue
        sf, tf = ctx.path("scn_%s_%d.ndjson" % (name, i)), ctx.path("run_%s_%d.ndjson" % (name, i))
        ctx.write_ndjson(sf, [{k: v for k, v in s.items() if k != "origin"} for s in part])
        procs.append((subprocess.Popen([binp, "-scenarios", sf, "-trace", tf], cwd=ctx.work, stdout=subprocess.PIPE,
                                       stderr=subprocess.STDOUT, text=True), tf))
    lines = []
    for p, tf in procs:
        try:
            out, _ = p.communicate(timeout=1500)
        except subprocess.TimeoutExpired:
            p.kill()
            raise vlib.Inconclusive("dcsrun timeout")
        if p.returncode != 0:
            raise vlib.Inconclusive("dcsrun failed rc=%d: %s" % (p.returncode, vlib.tail(out, 20)))
        ctx.log("dcsrun %s: %s" % (name, out.strip()))
        lines += ctx.read_ndjson(tf)
    return lines


def project(lines):
    """Join the gateway's Req line with the driver's Open line, and the End line with the Ret line that follows it."""
    out = []
    i = 0
    while i < len(lines):
        ln = dict(lines[i])
        ln.pop("seq", None)
        nxt = lines[i + 1] if i + 1 < len(lines) else {}
        if ln["ev"] == "Req" and nxt.get("ev") == "Open" and nxt.get("e") == ln.get("e") and nxt.get("scn") == ln.get("scn"):
            out.append({"ev": "Open", "scn": ln["scn"], "e": ln["e"], "fn": nxt["fn"], "op": ln["op"], "run": ln["run"], "dets": ln["dets"]})
            i += 2
        elif ln["ev"] == "End" and nxt.get("ev") == "Ret" and nxt.get("e") == ln.get("e") and nxt.get("scn") == ln.get("scn"):
            r = dict(nxt)
            r.pop("seq", None)
            r["how"] = ln["how"]
            out.append(r)
            i += 2
        else:
            if ln["ev"] == "Ret":
                ln.setdefault("how", "")
            out.append(ln)
            i += 1
    return out


def judge(ctx, scenarios, lines, what):
    """One TLC pass over the recorded lines; returns (projected lines, viol, drift, obs records)."""
    plines = project(lines)
    tf = ctx.path("trace_%s.ndjson" % what)
    ctx.write_ndjson(tf, plines)
    maxrun = max([st.get("r", 0) for s in scenarios for st in s["steps"]] + [1]) + 1
    viol, drift, r = ctx.validate("DcsRunTrace", None, tf, cfg_text=cfg_trace(maxrun), timeout=1500)
    return plines, viol, drift, r.records("OBS")


def report(ctx, scenarios, lines, viol, drift):
    by_id = {s["id"]: s for s in scenarios}

    def trace_of(sid):
        return [x for x in lines if x.get("scn") == sid]

    for d in drift:
        ctx.drift.append({"scn": d[1], "line": d[2], "origin": (by_id.get(d[1]) or {}).get("origin"), "detail": str(d[3])[:300]})
    told = set()
    for v in viol:
        sid = v[2]
        if (v[1], sid) in told:     # one report per property and scenario
            continue
        told.add((v[1], sid))
        ctx.add_violation({"inv": v[1], "scn": sid, "line": v[3], "origin": (by_id.get(sid) or {}).get("origin"), "detail": str(v[4])[:300]},
                          replay_obj={"scenario": by_id.get(sid), "trace": trace_of(sid)})


def nonempty(x):
    if isinstance(x, dict) and "$set" in x:
        return bool(x["$set"])
    return bool(x)


def attribute(obs):
    """OBS record of the trace specification -> the deviations it shows."""
    name, detail = obs[1], obs[4]
    if name == "AllAckedImpliesOk":
        return (["Code_FailureEventSticks"] if nonempty(detail[2]) else []) + (["Code_ForeignEventDecides"] if nonempty(detail[3]) else [])
    if name == "CleanupLeavesNothing":
        return (["Code_CleanupForgetsOnOpenFailure"] if detail[2] else []) + (["Code_EorClearsAnyPending"] if detail[3] else [])
    return {"FailedDetectorsNamed": ["Code_ReasonOverwritten"], "EorMatchesSor": ["Code_EorHookUnconditional"],
            "NothingForgotten": [],
            "SorSuccessfulTruthful": ["Code_SorSuccessfulMeansPending"], "PfrCoversAll": ["Code_PfrPartial"],
            "EorClearsOwnRunOnly": ["Code_EorClearsAnyPending"]}.get(name, [])


def run(ctx):
    quick = ctx.tier == "quick"
    ctx.assumptions += [
        "the DCS gateway is the fake of harness/cmd/dcsrun: it sends what the scenario says on its streams; its own view is one table, "
        "detector -> the run it got a SOR for and no EOR (of that run) yet",
        "RunEvent carries neither run number nor partition: events 'of other runs' on a stream cannot be told apart by anybody and are not "
        "modelled; events of other detectors are",
        "the environment calls the hooks in the documented order (PFR while CONFIGURED, SOR, EOR, Cleanup after the EOR hook / in "
        "CONFIGURED / in ERROR); a failed hook lets the transition go on or sends the environment to ERROR; dcs_detectors does not change "
        "during the life of an environment; the plugin knows no dcs_enabled / per-detector exclusion (that is the workflow's business)",
        "'the call itself fails' is injected at the plugin's gRPC client stub (wrapped by the driver, which also learns there when a hook "
        "has entered stream.Recv() again); pendingEORs / detectorMap are reset and read by reflection; no hook in /repo",
        "grace periods (dcs_pfr_grace_period, dcs_sor_grace_period) are 0: a closed gate costs the plugin's own 1 s sleep",
    ]
    ctx.rule = ("scenario = a behaviour of DcsRunGen (tlc -simulate, seeded) or a TLC counterexample of DcsRun, run step by step on the "
                "real plugin; non-trivial = contains a stream or Subscribe event, a call that fails to open, or a stream that does not end "
                "with EOF; distinct = distinct step sequences")

    # ---------- 1. exhaustive ----------
    wit = " ".join("W_" + inv for (inv, _w) in DEV.values())
    st3, st5 = '{"OK", "FAIL", "PROG"}', '{"OK", "FAIL", "UNAV", "TMO", "PROG"}'
    st2 = '{"OK", "FAIL"}'
    if quick:
        jobs = [("asis-1env", "DcsRun", cfg_model(E1, "{}", 2, 2, 1, 1, st2, '{"eof"}', True, HOLD + " " + wit), ["-continue"]),
                ("repaired-1env", "DcsRun", cfg_model(E1, "{}", 2, 2, 1, 1, st2, '{"eof"}', False, ALL), []),
                ("asis-2env", "DcsRun", cfg_model(E2, "{}", 2, 1, 0, 0, st2, '{"eof"}', True, HOLD), [])]
    else:
        jobs = [("asis-1env", "DcsRun", cfg_model(E1, "{}", 2, 3, 1, 1, st3, '{"eof"}', True, HOLD + " " + wit), ["-continue"]),
                ("repaired-1env", "DcsRun", cfg_model(E1, "{}", 2, 3, 1, 1, st3, '{"eof"}', False, ALL), []),
                ("asis-2env", "DcsRun", cfg_model(E2, "{}", 2, 1, 0, 1, st2, '{"eof"}', True, HOLD), []),
                ("asis-1env-allstates", "DcsRun", cfg_model(E1, UNI[2], 1, 2, 1, 1, st5, '{"eof", "tmo", "grpc", "unk"}', True, HOLD), []),
                ("repaired-1env-allstates", "DcsRun", cfg_model(E1, UNI[2], 1, 2, 1, 1, st5, '{"eof", "tmo", "grpc", "unk"}', False, ALL), [])]
        for dev, (inv, _what) in DEV.items():
            # the deviation is the only cause: with it repaired (the others as they are) its property holds
            # (CleanupLeavesNothing has a second cause, which needs two runs: Code_EorClearsAnyPending)
            rep = {dev: False, "Code_EorClearsAnyPending": False} if dev == "Code_CleanupForgetsOnOpenFailure" else {dev: False}
            jobs.append(("only:" + dev, "DcsRun", cfg_model(E1, "{}", 2, 2, 1, 1, st2, '{"eof"}', rep, inv), []))
    res = tlc_parallel(ctx, jobs, par=3 if quick else 6, workers=4, timeout=1500)
    for label, r in res.items():
        bad = [v for v in r.violated if not (label == "asis-1env" and v.startswith("W_"))]
        if bad or r.deadlock or (label != "asis-1env" and not r.no_error):
            ctx.save_debug(r, "tlc_DcsRun_%s.txt" % label.replace(":", "_"))
            raise vlib.Inconclusive("model check %s: %s - the specification does not describe what it claims" %
                                    (label, ",".join(bad) or vlib.tail(r.out, 5)))
    witnesses = split_witnesses(res["asis-1env"].out)
    for dev, (inv, _what) in DEV.items():
        if not witnesses.get("W_" + inv):
            raise vlib.Inconclusive("the model of the code as it is no longer refutes %s (%s): the specification changed?" % (inv, dev))
    ctx.extra["refuted_as_is"] = sorted(inv for (inv, _w) in DEV.values())

    # ---------- 2. scenarios ----------
    scenarios, seen = [], set()

    def add(s):
        k = canon(s)
        if k in seen or not s["steps"]:
            return None
        seen.add(k)
        s["id"] = len(scenarios) + 1
        scenarios.append(s)
        return s["id"]

    cex_of = {}
    for dev, (inv, _what) in DEV.items():
        for beh in sorted(witnesses["W_" + inv], key=len)[:2]:
            sid = add(beh_to_scenario(0, beh, "model-counterexample:%s" % inv))
            if sid:
                cex_of.setdefault(dev, set()).add(sid)
    nsim = 220 if quick else 3000
    gen = cfg_model(E2, UNI[2], 3, 4, 3, 2, '{"OK", "FAIL", "UNAV", "TMO", "PROG"}', '{"eof", "tmo", "grpc", "unk"}', True, None, spec="GenSpec")
    for b in ctx.simulate("DcsRunGen", None, nsim, 45, cfg_text=gen, seed=ctx.seed * 7919 + 13):
        add(beh_to_scenario(0, b, "generated"))
    for s in scenarios:
        ctx.count_case(canon(s), nontrivial=nontrivial(s))

    # ---------- 3. run on the real plugin, 4. validate ----------
    binp = ctx.build("dcsrun")
    lines = execute(ctx, binp, scenarios, "all", shards=16)
    ctx.traces = len(scenarios)
    ctx.exhaustive = False
    plines, viol, drift, obs = judge(ctx, scenarios, lines, "all")
    first = scenarios[0]
    ctx.sample({"scenario": first, "trace": [x for x in plines if x.get("scn") == first["id"]][:14]})
    report(ctx, scenarios, plines, viol, drift)

    stress(ctx, binp, 20000 if quick else 200000)

    # ---------- 5. what TLC refutes for the code as it is, reproduced on the real plugin ----------
    shown = {}
    for o in obs:
        for dev in attribute(o):
            shown.setdefault(dev, set()).add(o[2])
    ctx.extra["deviations_reproduced"] = {d: len(v) for d, v in shown.items()}
    drifted = {d["scn"] for d in ctx.drift}
    for dev, (inv, what) in DEV.items():
        hit = shown.get(dev, set()) - drifted
        cex_hit = bool(cex_of.get(dev, set()) & hit)
        ctx.observations.append(
            "%s: %s (model: %s refuted for the code as it is, satisfied by the repaired design; %s on the real plugin: %d recorded "
            "scenario(s) show it%s)" % (dev, what, inv, "reproduced" if hit else "NOT reproduced", len(hit),
                                        ", among them TLC's counterexample" if cex_hit else ""))


def stress(ctx, binp, cycles):
    """Outside the model: hooks of two environments racing on the unprotected pendingEORs map (observation only)."""
    try:
        p = subprocess.run([binp, "-stress", str(cycles), "-trace", ctx.path("stress.ndjson")], cwd=ctx.work, stdout=subprocess.PIPE,
                           stderr=subprocess.STDOUT, text=True, timeout=600)
    except subprocess.TimeoutExpired:
        ctx.log("stress run timed out (no observation)")
        return
    fatal = [ln for ln in p.stdout.splitlines() if ln.startswith("fatal error: concurrent map")]
    in_plugin = "dcs.(*Plugin).CallStack" in p.stdout or "dcs.(*Plugin).pendingEorsForEnvs" in p.stdout
    ctx.extra["stress"] = {"cycles": cycles, "rc": p.returncode, "fatal": fatal[:1]}
    ctx.log("stress: rc=%d %s" % (p.returncode, fatal[:1] or vlib.tail(p.stdout, 1)))
    if fatal and in_plugin:
        ctx.observations.append(
            "outside the model (which moves one goroutine at a time): pendingEORs is a plain map written by every StartOfRun / EndOfRun / "
            "Cleanup call and read by GetData without a lock; with two environments cycling through StartOfRun and EndOfRun at the same "
            "time the Go runtime aborted the process with '%s' (stack in dcs.(*Plugin).CallStack) - in the core, where environments run "
            "their hooks concurrently, this is a crash of the whole process" % fatal[0])
    elif p.returncode == 0:
        ctx.observations.append(
            "outside the model: pendingEORs is shared by the hook calls of all environments without a lock; %d concurrent SOR/EOR cycles of "
            "two environments did not make the Go runtime detect it this time" % cycles)


def replay(ctx, obj):
    s = obj["scenario"]
    if not s:
        raise vlib.Inconclusive("replay object without a scenario")
    binp = ctx.build("dcsrun")
    lines = execute(ctx, binp, [s], "replay")
    plines, viol, drift, _obs = judge(ctx, [s], lines, "replay")
    ctx.traces = 1
    report(ctx, [s], plines, viol, drift)
