#!/usr/bin/env python3
"""lib/import_mutant.py <PID> <OUT/X dir> [check ids ...]

Confirms a seeded change delivered by an independent sub-agent and keeps it under /verif/seeded/<PID>-<X>/:
 1. scratch worktree of /repo (under /tmp), patch must apply and build (with and without -tags verif);
 2. the repository's existing tests of the touched packages must still pass with the patch;
 3. the demonstration (commands taken from demo/RUN.txt: `cp OUT/...` and `go test ...` lines) must PASS without
    the patch and FAIL with it;
 4. the listed checks (default: the property's own) are run against the patched worktree (VERIF_REPO) and their
    verdicts recorded.  The worktree is removed afterwards.
Nothing is ever applied to /repo itself."""
import json
import os
import re
import shutil
import subprocess
import sys

ENV = dict(os.environ, GOFLAGS="-mod=mod", GOPROXY="off", GOSUMDB="off", GOTOOLCHAIN="local")


def sh(cmd, cwd, timeout=1200):
    p = subprocess.run(["bash", "-o", "pipefail", "-c", cmd], cwd=cwd, env=ENV, stdout=subprocess.PIPE, stderr=subprocess.STDOUT, text=True, timeout=timeout)
    return p.returncode, p.stdout


def main():
    pid, src = sys.argv[1], os.path.abspath(sys.argv[2])
    checks = sys.argv[3:] or [pid]
    label = os.path.basename(src.rstrip("/"))
    wt = "/tmp/imp-%s-%s-%d" % (pid, label, os.getpid())
    rc, out = sh("git -C /repo worktree add -q %s HEAD" % wt, "/")
    if rc:
        sys.exit("cannot create worktree: " + out)
    rec = {"property": pid, "label": label}
    try:
        shutil.copytree(src, os.path.join(wt, "OUT", label))
        with open(os.path.join(wt, "OUT", "go.mod"), "w") as fh:   # keeps `go build ./...` out of the demo files
            fh.write("module out\n\ngo 1.22\n")
        run_txt = open(os.path.join(src, "demo", "RUN.txt")).read()
        cmds = []
        for ln in run_txt.splitlines():
            ln = ln.strip()
            if re.match(r"(cp|mkdir) ", ln) or ln.startswith("go test") or ln.startswith("go run"):
                ln = ln.replace("<repo-root>/", "").replace("<repo root>/", "")
                if ln.startswith("cp "):
                    parts = ln.split()
                    if not parts[1].startswith(("OUT/", "/")):     # a path relative to the demo directory
                        parts[1] = "OUT/%s/demo/%s" % (label, parts[1])
                    ln = " ".join(parts)
                cmds.append(ln)
        rec["demo_cmds"] = cmds
        demo = " && ".join(cmds)
        rc0, out0 = sh(demo, wt)
        rec["demo_without_patch"] = "pass" if rc0 == 0 else "FAIL"
        rc, out = sh("git apply OUT/%s/patch.diff" % label, wt)
        if rc:
            rec["error"] = "patch does not apply: " + out[-300:]
            print(json.dumps(rec, indent=1))
            return 1
        files = sh("git diff --name-only", wt)[1].split()
        pkgs = sorted({"./" + os.path.dirname(f) for f in files if f.endswith(".go")})
        rec["files_changed"] = files
        rcb, outb = sh("go build ./... && go build -tags verif " + " ".join(pkgs), wt)
        rec["builds"] = rcb == 0
        if rcb:
            rec["build_output"] = outb[-600:]
        # existing tests: move the demo test files away first
        demo_files = [c.split()[-1] for c in cmds if c.startswith("cp ")]
        stash = []
        for d in demo_files:
            cand = d if not os.path.isdir(os.path.join(wt, d)) else None
            if cand is None:
                srcname = [c.split()[1] for c in cmds if c.startswith("cp ") and c.split()[-1] == d][0]
                cand = os.path.join(d, os.path.basename(srcname))
            if os.path.exists(os.path.join(wt, cand)):
                os.rename(os.path.join(wt, cand), os.path.join(wt, cand + ".away"))
                stash.append(cand)
        rct, outt = sh("go test -vet=off -count=1 " + " ".join(pkgs), wt)
        rec["existing_tests_with_patch"] = "pass" if rct == 0 else "FAIL: " + outt[-400:]
        for c in stash:
            os.rename(os.path.join(wt, c + ".away"), os.path.join(wt, c))
        rc1, out1 = sh(" && ".join(c for c in cmds if not c.startswith(("cp ", "mkdir "))), wt)
        rec["demo_with_patch"] = "fail" if rc1 != 0 else "PASSES (not a valid demonstration)"
        rec["demo_failure_excerpt"] = "\n".join(l for l in out1.splitlines() if "FAIL" in l or "rror" in l or "expected" in l.lower())[:600]
        # remove demo files again, run my checks against the patched tree
        for c in stash:
            os.remove(os.path.join(wt, c))
        shutil.rmtree(os.path.join(wt, "OUT"))
        rec["checks"] = {}
        for c in checks:
            p = subprocess.run(["./check", c, "--tier", os.environ.get("MUT_TIER", "quick")], cwd="/verif",
                               env=dict(ENV, VERIF_REPO=wt), stdout=subprocess.PIPE, stderr=subprocess.STDOUT, text=True)
            viol = [l for l in p.stdout.splitlines() if l.startswith("VIOLATION")]
            invs = sorted({re.search(r"inv=(\w+)", v).group(1) for v in viol if re.search(r"inv=(\w+)", v)})
            rec["checks"][c] = {"rc": p.returncode, "violations": len(viol), "invariants": invs,
                                "summary": next((l for l in p.stdout.splitlines() if l.startswith(("SUMMARY", "INCONCLUSIVE"))), "")[:300]}
        valid = (rec["demo_without_patch"] == "pass" and rec["demo_with_patch"] == "fail" and rec["builds"]
                 and rec["existing_tests_with_patch"] == "pass")
        rec["confirmed"] = valid
        rec["detected"] = any(v["rc"] == 1 for v in rec["checks"].values())
        if valid:
            # MUT_LABEL: name under seeded/ when it differs from the delivery directory (second round: A -> C, B -> D)
            dst = os.path.join("/verif/seeded", "%s-%s" % (pid, os.environ.get("MUT_LABEL", label)))
            shutil.rmtree(dst, ignore_errors=True)
            os.makedirs(dst)
            shutil.copy(os.path.join(src, "patch.diff"), dst)
            shutil.copytree(os.path.join(src, "demo"), os.path.join(dst, "demo"))
            meta = {}
            try:
                meta = json.load(open(os.path.join(src, "meta.json")))
            except Exception:
                pass
            meta.update({"breaks_property": pid, "confirmation": {k: rec[k] for k in (
                "demo_cmds", "demo_without_patch", "demo_with_patch", "demo_failure_excerpt", "builds", "existing_tests_with_patch",
                "files_changed")}, "checks_run_against_it": rec["checks"], "detected": rec["detected"]})
            json.dump(meta, open(os.path.join(dst, "meta.json"), "w"), indent=1)
        print(json.dumps({k: rec[k] for k in rec if k not in ("demo_failure_excerpt",)}, indent=1))
        return 0
    finally:
        sh("git -C /repo worktree remove --force %s" % wt, "/")


if __name__ == "__main__":
    sys.exit(main())
