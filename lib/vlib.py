"""Shared orchestration for the /verif checks (python3 stdlib only).

A check is lib/props/<ID>.py with `run(ctx)`; it uses Ctx to run TLC on the models,
build and run the Go harnesses against /repo's working tree (tag verif), validate the
recorded traces with TLC, classify violations against known_findings.json and write the
evidence file.  Exit codes: 0 held / 1 violation (VIOLATION line) / 2 inconclusive.
"""
import glob
import json
import os
import re
import shutil
import tempfile
import subprocess
import sys
import time

import tlaval

ROOT = os.path.dirname(os.path.dirname(os.path.abspath(__file__)))
REPO = os.environ.get("VERIF_REPO", "/repo")
SPEC = os.path.join(ROOT, "spec")
HARNESS = os.path.join(ROOT, "harness")
GOENV = {"GOFLAGS": "-mod=mod", "GOPROXY": "off", "GOSUMDB": "off", "GOTOOLCHAIN": "local"}
NCPU = os.cpu_count() or 4


class Inconclusive(Exception):
    pass


class RepoCrash(Exception):
    """The code under check (code of /repo, not the harness) panicked while a scenario was running on it."""

    def __init__(self, msg, frame, cmd, out, subst=None):
        Exception.__init__(self, "%s in %s" % (msg, frame))
        self.msg, self.frame, self.cmd, self.out, self.subst = msg, frame, list(cmd), out, dict(subst or {})


_RUNTIME_FRAMES = ("runtime.", "runtime/", "panic(", "sync.", "sync/", "reflect.", "internal/", "testing.", "os.", "syscall.")


def repo_panic(out):
    """(message, function) if `out` holds a Go panic whose first frame outside the Go runtime and third-party libraries is a
    function of the repository under check; None if there is no panic or if it is the harness's own."""
    m = None
    for m in re.finditer(r"^(panic: .*|fatal error: concurrent map .*)$", out, re.M):
        break
    if not m:
        return None
    rest = out[m.end():]
    g = re.search(r"^goroutine \d+ \[running\]:\n", rest, re.M)   # gopanic stacks come first for `panic:`
    if not g:
        return None
    for ln in rest[g.end():].splitlines():
        if not ln.strip():
            break
        if ln.startswith(("\t", " ")) or ln.startswith("created by "):
            continue
        fn = ln.strip()
        if fn.startswith(_RUNTIME_FRAMES):
            continue
        if fn.startswith("github.com/AliceO2Group/Control/"):
            return (m.group(1)[:200], re.sub(r"\([^()]*\)$", "", fn)[:160])
        if fn.startswith(("verif/harness", "main.")):
            return None
    return None


class TlcResult:
    def __init__(self, out, rc, wall):
        self.out = out
        self.rc = rc
        self.wall = wall
        m = re.findall(r"([0-9]+) states generated, ([0-9]+) distinct states found", out)
        self.generated = int(m[-1][0]) if m else 0
        self.distinct = int(m[-1][1]) if m else 0
        self.no_error = "Model checking completed. No error has been found." in out
        self.violated = re.findall(r"Error: Invariant ([A-Za-z0-9_]+) is violated", out)
        self.violated += re.findall(r"Error: Action property ([A-Za-z0-9_]+) is violated", out)
        self.violated += re.findall(r"Error: Temporal property ([A-Za-z0-9_]+) was violated", out)
        if "Temporal properties were violated" in out and not self.violated:
            self.violated.append("<temporal>")
        self.deadlock = "Error: Deadlock reached" in out
        self.crashed = (not self.no_error) and not self.violated and not self.deadlock and rc != 0

    def records(self, tag):
        """Tuples printed with PrintT(<<"TAG", ...>>)."""
        res = []
        lines = self.out.splitlines()
        i = 0
        while i < len(lines):
            line = lines[i]
            i += 1
            if not re.match(r'<<\s*"%s"' % tag, line):
                continue
            buf = line
            # TLC pretty-prints long values over several lines: join until brackets balance
            while buf.count("<<") > buf.count(">>") and i < len(lines):
                buf += " " + lines[i].strip()
                i += 1
            try:
                res.append(tlaval.parse_value(buf))
            except Exception:
                pass
        return res

    def counterexample(self):
        return tlaval.parse_counterexample(self.out)

    def coverage_zero(self):
        """Actions with 0 count in -coverage output (lines '<Action line ...>: 0:0')."""
        return re.findall(r"<([A-Za-z0-9_]+) line [^>]*>: 0:0", self.out)


class Ctx:
    def __init__(self, pid, tier, seed, replay=None):
        self.pid = pid
        self.tier = tier
        self.seed = seed
        self.replay = replay
        self.t0 = time.time()
        wbase = os.path.join(ROOT, "work")
        if any(c in wbase for c in ".:"):
            # the core's repository manager takes a path with '.' or ':' for a URL: when this tree is checked out
            # under such a path (e.g. ~/.vp/runs/N/verif) the per-run scratch directory goes to the temp dir instead
            # (created and removed by the run itself)
            wbase = os.path.join("/tmp" if any(c in tempfile.gettempdir() for c in ".:") else tempfile.gettempdir(), "verif-work")
        self.work = os.path.join(wbase, "%s_%s_%d" % (pid, tier, os.getpid()))
        shutil.rmtree(self.work, ignore_errors=True)
        os.makedirs(self.work)
        # every JVM started by this run (TLC, also from a check's own helper) keeps its scratch directory in the work dir, not /tmp
        os.makedirs(os.path.join(self.work, "jt"), exist_ok=True)
        os.environ["JAVA_TOOL_OPTIONS"] = (os.environ.get("JAVA_TOOL_OPTIONS", "") + " -Djava.io.tmpdir=" + os.path.join(self.work, "jt")).strip()
        self.ntlc = 0
        self.states = 0
        self.transitions = 0
        self.traces = 0
        self.evaluations = 0
        self.distinct = set()
        self.samples = []
        self.violations = []      # dicts
        self.known_hit = {}       # key -> what
        self.drift = []
        self.observations = []
        self.assumptions = []
        self.extra = {}
        self.zero_cov = []
        self.exhaustive = None
        self.rule = ""
        self.model_runs = []
        self.findings = load_findings()

    # ---------- logging ----------
    def log(self, *a):
        print("[%s %6.1fs]" % (self.pid, time.time() - self.t0), *a, file=sys.stderr, flush=True)

    # ---------- findings ----------
    def finding_status(self, key):
        for f in self.findings:
            if f.get("property") == self.pid and f.get("key") == key:
                return f.get("status")
        return None

    def deviation_open(self, key):
        """True when the model must describe a known, unrepaired deviation of the code."""
        return self.finding_status(key) == "open"

    # ---------- TLC ----------
    def tlc(self, module, cfg, workers=None, sim=None, env=None, timeout=900, extra=None, depth_first=False,
            cfg_text=None, files=None):
        """Run TLC on spec/<module>.tla with spec/<cfg> (or cfg_text) in a scratch copy."""
        self.ntlc += 1
        d = os.path.join(self.work, "tlc%d" % self.ntlc)
        os.makedirs(d)
        for f in glob.glob(os.path.join(SPEC, "*.tla")):
            shutil.copy(f, d)
        if cfg_text is not None:
            cfgname = "run.cfg"
            with open(os.path.join(d, cfgname), "w") as fh:
                fh.write(cfg_text)
        else:
            cfgname = cfg
            shutil.copy(os.path.join(SPEC, cfg), d)
        for name, text in (files or {}).items():
            os.makedirs(os.path.dirname(os.path.join(d, name)), exist_ok=True)
            with open(os.path.join(d, name), "w") as fh:
                fh.write(text)
        cmd = ["timeout", str(timeout), "tlc", "-workers", str(workers or NCPU), "-metadir", os.path.join(d, "md"),
               "-config", cfgname]
        if sim:
            cmd += ["-simulate", sim]
        cmd += list(extra or [])
        cmd += [module + ".tla"]
        e = dict(os.environ)
        os.makedirs(os.path.join(d, "jt"), exist_ok=True)       # TLC's scratch directory: inside the work dir, not /tmp
        jopts = "-Xss64m -Djava.io.tmpdir=" + os.path.join(d, "jt")
        if depth_first:
            jopts += " -Dtlc2.tool.queue.IStateQueue=StateDeque"
        e["JAVA_TOOL_OPTIONS"] = (e.get("JAVA_TOOL_OPTIONS", "") + " " + jopts).strip()
        e.update(env or {})
        t = time.time()
        p = subprocess.run(cmd, cwd=d, env=e, stdout=subprocess.PIPE, stderr=subprocess.STDOUT, text=True)
        res = TlcResult(p.stdout, p.returncode, time.time() - t)
        res.dir = d
        with open(os.path.join(d, "out.txt"), "w") as fh:
            fh.write(p.stdout)
        if p.returncode == 124:
            raise Inconclusive("TLC timeout after %ss on %s/%s" % (timeout, module, cfgname))
        if "java.lang.OutOfMemoryError" in p.stdout or "StackOverflowError" in p.stdout:
            raise Inconclusive("TLC resource failure on %s/%s" % (module, cfgname))
        return res

    def model_check(self, module, cfg, expect_ok=True, **kw):
        """Exhaustive TLC run of a model config; accumulates states/transitions."""
        r = self.tlc(module, cfg, **kw)
        if r.crashed or (r.generated == 0 and not r.violated):
            self.save_debug(r, "tlc_%s_%s.txt" % (module, cfg))
            raise Inconclusive("TLC failed on %s/%s (rc=%d): %s" % (module, cfg, r.rc, tail(r.out)))
        self.states += r.distinct
        self.transitions += r.generated
        self.model_runs.append({"module": module, "cfg": cfg, "distinct": r.distinct, "generated": r.generated,
                                "result": "ok" if r.no_error else ("violated:" + ",".join(r.violated) if r.violated else
                                                                   ("deadlock" if r.deadlock else "?")),
                                "wall_s": round(r.wall, 1)})
        self.log("model %s/%s: %d distinct, %d generated, %s (%.1fs)" % (module, cfg, r.distinct, r.generated,
                                                                         self.model_runs[-1]["result"], r.wall))
        return r

    def simulate(self, module, cfg, num, depth, seed=None, **kw):
        """tlc -simulate; returns list of behaviours, each a list of (action, args, state)."""
        r = self.tlc(module, cfg, workers=1, sim="file=sim/b,num=%d" % num,
                     extra=["-depth", str(depth), "-seed", str(seed if seed is not None else self.seed)],
                     **_mk_simdir(kw))
        files = sorted(glob.glob(os.path.join(r.dir, "sim", "b_*")), key=_natkey)
        beh = []
        for f in files:
            with open(f) as fh:
                beh.append(tlaval.parse_simfile(fh.read()))
        if not beh:
            self.save_debug(r, "tlc_sim_%s.txt" % module)
            raise Inconclusive("TLC simulation of %s/%s produced no behaviours: %s" % (module, cfg, tail(r.out)))
        return beh

    # ---------- harness ----------
    def build(self, name, race=False):
        """go build -tags verif harness/cmd/<name> against /repo's working tree."""
        out = os.path.join(self.work, "bin", name + ("_race" if race else ""))
        os.makedirs(os.path.dirname(out), exist_ok=True)
        e = dict(os.environ)
        e.update(GOENV)
        if not os.path.exists(os.path.join(HARNESS, "go.sum")) or \
                os.path.getmtime(os.path.join(REPO, "go.sum")) > os.path.getmtime(os.path.join(HARNESS, "go.sum")):
            pass
        cmd = ["go", "build", "-tags", "verif"] + (["-race"] if race else []) + ["-o", out, "./cmd/" + name]
        mod = "/repo"
        if REPO != mod:
            # alternate repository location (mutant campaigns): a go.work-free override via -modfile
            modfile = os.path.join(self.work, "go.alt.mod")
            with open(os.path.join(HARNESS, "go.mod")) as fh:
                txt = fh.read().replace("=> /repo\n", "=> %s\n" % REPO)
            with open(modfile, "w") as fh:
                fh.write(txt)
            shutil.copy(os.path.join(HARNESS, "go.sum"), os.path.join(self.work, "go.alt.sum"))
            cmd[2:2] = ["-modfile", modfile]
        t = time.time()
        p = subprocess.run(cmd, cwd=HARNESS, env=e, stdout=subprocess.PIPE, stderr=subprocess.STDOUT, text=True)
        if p.returncode != 0:
            raise Inconclusive("harness build failed (%s): %s" % (name, tail(p.stdout, 30)))
        self.log("built %s%s (%.1fs)" % (name, " -race" if race else "", time.time() - t))
        return out

    def run(self, cmd, timeout=600, env=None, cwd=None, ok_codes=(0,)):
        e = dict(os.environ)
        e.update(env or {})
        t = time.time()
        try:
            p = subprocess.run(cmd, cwd=cwd or self.work, env=e, stdout=subprocess.PIPE, stderr=subprocess.STDOUT,
                               text=True, timeout=timeout)
        except subprocess.TimeoutExpired:
            raise Inconclusive("harness timeout: %s" % " ".join(cmd[:3]))
        if p.returncode not in ok_codes:
            crash = repo_panic(p.stdout)
            if crash:
                raise RepoCrash(crash[0], crash[1], cmd, p.stdout)
            raise Inconclusive("harness failed rc=%d: %s: %s" % (p.returncode, " ".join(cmd[:3]), tail(p.stdout, 30)))
        return p.stdout

    def path(self, *a):
        p = os.path.join(self.work, *a)
        os.makedirs(os.path.dirname(p), exist_ok=True)
        return p

    def write_ndjson(self, path, objs):
        with open(path, "w") as fh:
            for o in objs:
                fh.write(json.dumps(o, separators=(",", ":")) + "\n")

    def read_ndjson(self, path):
        with open(path) as fh:
            return [json.loads(x) for x in fh if x.strip()]

    # ---------- trace validation ----------
    def validate(self, module, cfg, trace_file, timeout=900, cfg_text=None, depth_first=False):
        """Run the trace specification over a recorded trace file.
        Returns (viol_records, drift_records, result). Raises Inconclusive if the file was not consumed."""
        r = self.tlc(module, cfg, workers=1, env={"TRACE_FILE": trace_file}, timeout=timeout, cfg_text=cfg_text,
                     depth_first=depth_first)
        end = r.records("END")
        if not end or not r.no_error:
            self.save_debug(r, "tlc_trace_%s.txt" % module)
            raise Inconclusive("trace validation of %s did not reach the end of %s: %s" % (module, trace_file, tail(r.out, 25)))
        self.states += r.distinct
        self.transitions += r.generated
        return r.records("VIOL"), r.records("DRIFT"), r

    # ---------- verdict ----------
    def add_violation(self, v, replay_obj=None):
        """v: dict with at least 'inv'; optional signature fields used by known_findings matching."""
        for f in self.findings:
            if f.get("property") != self.pid or f.get("status") != "open":
                continue
            m = f.get("match", {})
            if all(v.get(k) == val for k, val in m.items()):
                self.known_hit.setdefault(f["key"], {"what": f["what"], "count": 0})["count"] += 1
                if os.environ.get("VERIF_DEBUG_KNOWN"):
                    print("KNOWN-HIT %s %s" % (f["key"], json.dumps(v, default=str)[:400]))
                return "known"
        if replay_obj is not None and len(self.violations) < 20:
            d = os.path.join(ROOT, "evidence", "replays", self.pid)
            os.makedirs(d, exist_ok=True)
            name = "%s_%s_%d.json" % (v.get("inv", "viol"), self.tier, len(self.violations))
            with open(os.path.join(d, name), "w") as fh:
                json.dump({"violation": v, "replay": replay_obj}, fh, indent=1, default=str)
            v["replay"] = os.path.join("evidence", "replays", self.pid, name)
        self.violations.append(v)
        return "new"

    def add_crash(self, e):
        """The code under check panicked under a scenario of this check: whatever the property promises for that scenario (an
        answer, a state, a delivery) did not happen.  The replay object re-runs the same driver on the same scenarios."""
        files = {}
        cmd = []
        for a in e.cmd:
            if isinstance(a, str) and os.path.isfile(a) and not a.startswith(os.path.join(self.work, "bin")) \
                    and os.path.getsize(a) < 8 << 20:
                files[os.path.basename(a)] = open(a).read()
                cmd.append("{file:%s}" % os.path.basename(a))
            elif isinstance(a, str) and a.startswith(self.work):
                cmd.append("{work}" + a[len(self.work):])
            else:
                cmd.append(a)
        self.add_violation({"inv": "NoCrash", "panic": e.msg, "frame": e.frame, "cause": "panic"},
                           replay_obj={"kind": "crash", "binary": os.path.basename(e.cmd[0]), "cmd": cmd, "files": files,
                                       "output_tail": tail(e.out, 40)})

    def replay_crash(self, obj):
        binp = self.build(obj["binary"].replace("_race", ""), race=obj["binary"].endswith("_race"))
        cmd = [binp]
        for a in obj["cmd"][1:]:
            if a.startswith("{file:"):
                name = a[6:-1]
                fp = self.path("replay_in", name)
                with open(fp, "w") as fh:
                    fh.write(obj["files"][name])
                cmd.append(fp)
            elif a.startswith("{work}"):
                fp = self.work + a[6:]
                os.makedirs(os.path.dirname(fp), exist_ok=True)
                cmd.append(fp)
            else:
                cmd.append(a)
        try:
            self.run(cmd, timeout=3000)
        except RepoCrash as e:
            self.add_crash(e)

    def sample(self, obj, limit=6):
        if len(self.samples) < limit:
            self.samples.append(obj)

    def count_case(self, canonical, nontrivial=True):
        self.evaluations += 1
        if nontrivial:
            self.distinct.add(canonical if isinstance(canonical, str) else json.dumps(canonical, sort_keys=True))

    def save_debug(self, r, name):
        d = os.path.join(ROOT, "work", "debug")
        os.makedirs(d, exist_ok=True)
        with open(os.path.join(d, "%s_%s" % (self.pid, name)), "w") as fh:
            fh.write(r.out if hasattr(r, "out") else str(r))

    def finish(self, level="model_checking", write_evidence=True):
        wall = time.time() - self.t0
        for key, h in sorted(self.known_hit.items()):
            print("KNOWN-FINDING: property=%s %s [%s; %d occurrence(s)]" % (self.pid, h["what"], key, h["count"]))
        printed = set()
        for f in self.findings:
            if f.get("property") == self.pid and f.get("status") == "fixed" and f.get("key") not in printed:
                printed.add(f.get("key"))     # several entries (one per invariant it showed under) may share a key
                print("fixed: property=%s %s %s" % (self.pid, f.get("commit", "?"), f["what"]))
        for o in self.observations[:10]:
            print("OBSERVATION property=%s %s" % (self.pid, o))
        for dr in self.drift[:5]:
            print("MODEL-DRIFT property=%s %s" % (self.pid, json.dumps(dr, default=str)))
        shown = 0
        for v in self.violations:
            if shown < 10:
                print("VIOLATION property=%s replay=%s inv=%s %s" % (
                    self.pid, v.get("replay", "-"), v.get("inv"), json.dumps({k: v[k] for k in v if k not in ("replay", "inv")},
                                                                              default=str)[:300]))
                shown += 1
        cov = {
            "states": self.states, "transitions": self.transitions,
            "traces_validated_against_impl": self.traces,
            "samples": self.samples or ["(no sample recorded)"],
            "evaluations": self.evaluations, "distinct_nontrivial": len(self.distinct),
            "rule": self.rule, "model_runs": self.model_runs,
            "model_drift": len(self.drift), "drift_samples": self.drift[:5],
            "observations": self.observations[:20],
            "known_findings_hit": {k: h["count"] for k, h in self.known_hit.items()},
            "zero_coverage_actions": self.zero_cov,
        }
        if self.exhaustive is not None:
            cov["exhaustive"] = bool(self.exhaustive)
        cov.update(self.extra)
        ev = {"property_id": self.pid, "tier": self.tier, "seed": int(self.seed), "level": level, "coverage": cov,
              "assumptions": self.assumptions, "wall_s": round(wall, 2), "violations": len(self.violations)}
        if write_evidence:
            # development override (VERIF_REPO = a scratch worktree): keep the committed evidence of /repo untouched
            evdir = os.path.join(ROOT, "evidence") if REPO == "/repo" else os.path.join(ROOT, "work", "evidence-dev")
            if not re.match(r"C\d\d$", self.pid):     # specifications beyond the listed properties
                evdir = os.path.join(evdir, "extra")
            os.makedirs(evdir, exist_ok=True)
            with open(os.path.join(evdir, self.pid + ".json"), "w") as fh:
                json.dump(ev, fh, indent=1, default=str)
        print("SUMMARY property=%s tier=%s seed=%d states=%d transitions=%d traces=%d evaluations=%d violations=%d known=%d drift=%d wall=%.1fs"
              % (self.pid, self.tier, self.seed, self.states, self.transitions, self.traces, self.evaluations,
                 len(self.violations), len(self.known_hit), len(self.drift), wall))
        return 1 if self.violations else 0

    def cleanup(self):
        if not os.environ.get("VERIF_KEEP"):
            shutil.rmtree(self.work, ignore_errors=True)


def _mk_simdir(kw):
    kw = dict(kw)
    files = dict(kw.get("files") or {})
    files["sim/.keep"] = ""
    kw["files"] = files
    return kw


def _natkey(s):
    return [int(x) if x.isdigit() else x for x in re.split(r"([0-9]+)", s)]


def tail(s, n=15):
    return "\n".join(s.strip().splitlines()[-n:])


def load_findings():
    p = os.path.join(ROOT, "known_findings.json")
    if not os.path.exists(p):
        return []
    with open(p) as fh:
        res = json.load(fh).get("findings", [])
    extra = os.environ.get("VERIF_EXTRA_FINDINGS")  # development only: proposed entries not yet merged
    if extra and os.path.exists(extra):
        with open(extra) as fh:
            res += json.load(fh).get("findings", [])
    return res
