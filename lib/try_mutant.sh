#!/bin/bash
# usage: lib/try_mutant.sh <PID> <patch.diff> [tier] [extra check ids...]
# Applies the patch in a scratch worktree of /repo (outside /repo and /verif), confirms that it builds and that the
# repository's tests of the touched packages pass, runs the check(s) against that worktree (VERIF_REPO) and removes it.
set -u
PID=$1; PATCH=$(readlink -f "$2"); TIER=${3:-quick}; shift 3 2>/dev/null || shift $#
export GOFLAGS=-mod=mod GOPROXY=off GOSUMDB=off GOTOOLCHAIN=local
WT=/tmp/mt-$PID-$$
git -C /repo worktree add -q "$WT" HEAD || exit 2
trap 'git -C /repo worktree remove --force "$WT" >/dev/null 2>&1' EXIT
cd "$WT" && git apply "$PATCH" || { echo "PATCH-DOES-NOT-APPLY"; exit 2; }
PKGS=$(git diff --name-only | grep '\.go$' | xargs -n1 dirname | sort -u | sed 's|^|./|')
go build ./... 2>&1 | tail -3; go build -tags verif $PKGS 2>&1 | tail -3
echo "== existing tests of touched packages: $PKGS"
go test -vet=off -count=1 $PKGS 2>&1 | grep -v "no test files" | tail -5
cd /verif
for P in $PID "$@"; do
  echo "== check $P ($TIER) against mutant"
  VERIF_REPO="$WT" ./check "$P" --tier "$TIER" 2>&1 | grep -E "^(VIOLATION|KNOWN-FINDING|SUMMARY|INCONCLUSIVE|MODEL-DRIFT)" | cut -c1-260 | head -8
  echo "rc=${PIPESTATUS[0]}"
done
