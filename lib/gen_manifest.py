#!/usr/bin/env python3
"""Generates /verif/MANIFEST.json from the per-property entries below (single source of truth)."""
import json
import os
import subprocess

ROOT = os.path.dirname(os.path.dirname(os.path.abspath(__file__)))

TLC_TRUST = "trusted: TLC/SANY and the CommunityModules Json module, the Go toolchain, the gate/recorder runtime (harness/vgate, vtrace)"
SIM_TRUST = (TLC_TRUST + ", the simulated Mesos master/agents/executors and Consul KV (harness/coresim: the protocol subset the core uses); "
             "the real core is built from /repo with -tags verif and driven through its real gRPC API")

CHECKS = {
    "C19": dict(
        text="TLC checks spec/EventWriter.tla exhaustively (every interleaving of producers, batching loop, writing loop, broker and Close "
             "within small constants); schedules generated from the model are imposed on the real KafkaWriter through gated hook points and "
             "every recorded run is validated by TLC against spec/EventWriterTrace.tla (conformance of the observable state after each step + "
             "the property formulas on the recorded facts).",
        note=TLC_TRUST + "; broker boundary = writeFunction; exhaustive bounds 2-3 producers x 2-3 events",
        technique="TLA+ model + TLC exhaustive check; TLC-generated schedules replayed on real code under gates; TLC trace validation"),
    "C02": dict(
        text="TLC checks spec/TaskTransition.tla exhaustively (workflow shapes of 0..3 tasks x criticality x CONFIGURE/START/STOP/RESET x "
             "per-task outcome vectors, all interleavings of the per-target steps); TLC enumerates the cases, each is executed on the real "
             "core (whole-core simulation, real gRPC API, scripted executors) and every recorded run is validated by TLC against "
             "spec/TaskTransitionTrace.tla (observed verdict = model verdict; Iff / FailureIsError / NothingToCommand / EndsInError on the "
             "recorded facts).",
        note=SIM_TRUST + "; outcomes that cost the code's real 90/120 s timeouts (silent, dies) and HTTP-level send failures are not replayed",
        technique="TLA+ model + TLC exhaustive check; TLC-enumerated cases executed on the real core (coresim); TLC trace validation"),
    "C07": dict(
        text="TLC checks spec/RunCounter.tla exhaustively (<= 4 concurrent callers, monotone foreign writer, caller crashes / request "
             "failures, restart: up to 2.5M states); every interleaving of the KV requests of 2 callers (with foreign write, fault, restart) "
             "and of 3 undisturbed callers, enumerated by TLC, is imposed on the unmodified NewRunNumber/GetNextUInt32 against a simulated "
             "Consul that parks every request; each recorded run is validated by TLC against spec/RunCounterTrace.tla.",
        note=TLC_TRUST + "; Consul's semantics are those of harness/fakeconsul (documented CAS/index rules); foreign writers are monotone; "
             "the START_ACTIVITY cancellation path in core/environment is covered by the coresim-based checks",
        technique="TLA+ model + TLC exhaustive check; TLC-enumerated request interleavings imposed on real code by a gating fake Consul; TLC trace validation"),
    "C16": dict(
        text="TLC enumerates spec/Transitioner.tla exhaustively: every O2 transition x every real device state x SrcState-checking device or "
             "not x every outcome (done, refused, error state, transport error executed / not executed, SrcState mismatch, ok replies with "
             "wrong trigger/event/state) of every device request FairMQ.Commit / Direct.Commit issues (10 666 behaviours); every behaviour is "
             "replayed on the real code through the exported transitioner constructors and through the real executorcmd.NewClient against a "
             "gRPC Occ server, and every recorded call is validated by TLC against spec/TransitionerTrace.tla (strict conformance of "
             "requests, reactions and returned values, plus the property formulas on the recorded facts).",
        note=TLC_TRUST + "; the scripted device (checked against the model by conformance); FairMQ table as the code assumes it; timeouts/hangs "
             "and the JSON (nopb) transport outside",
        technique="TLA+ model + TLC exhaustive enumeration = scenario generator; exhaustive replay on real code (in-process + real gRPC client); TLC trace validation"),
}

NOT_YET = "check not built yet in this session (work in progress; planned per DESIGN.md section 4)"

HOOK_SUBJECT_PREFIX = "verif:"


def main():
    props = [json.loads(l) for l in open(os.path.join(ROOT, "properties.jsonl"))]
    log = subprocess.run(["git", "-C", "/repo", "log", "--format=%h %s"], stdout=subprocess.PIPE, text=True).stdout.splitlines()
    hook_commits = [l.split()[0] for l in log if l.split(" ", 1)[1].startswith(HOOK_SUBJECT_PREFIX)]
    checks = []
    for p in props:
        pid = p["id"]
        if pid not in CHECKS:
            continue
        c = CHECKS[pid]
        checks.append({
            "property_id": pid,
            "quick_cmd": "./check %s --tier quick" % pid,
            "thorough_cmd": "./check %s --tier thorough" % pid,
            "evidence_file": "evidence/%s.json" % pid,
            "replay_cmd_template": "./check %s --replay {path}" % pid,
            "engine": "tlc",
            "level_claimed": {"category": "model_checking", "text": c["text"], "design_ref": "DESIGN.md section 4, " + pid},
            "level_note": c["note"],
            "technique": c["technique"],
        })
    man = {
        "version": 1,
        "setup_cmd": "cd /verif/harness && GOFLAGS=-mod=mod GOPROXY=off GOSUMDB=off GOTOOLCHAIN=local go build -tags verif -o /verif/work/bin/ ./cmd/...",
        "hooks": {"guard": "verif",
                  "enable": "go build -tags verif (harness module /verif/harness, replace github.com/AliceO2Group/Control => /repo)",
                  "baseline_off_cmd": "cd /repo && GOFLAGS=-mod=mod go test -vet=off -count=1 -timeout 25m ./...",
                  "source_commits": list(reversed(hook_commits)), "add_only": True},
        "engines": [
            {"name": "tlc", "path": "spec/", "serves_properties": sorted(CHECKS),
             "kind_free_text": "explicit TLA+ models checked exhaustively by TLC; scenario generation by TLC (simulation / enumeration / counterexamples); trace specifications validating recorded runs of the real code"},
            {"name": "harness", "path": "harness/", "serves_properties": sorted(CHECKS),
             "kind_free_text": "Go drivers replaying model-generated scenarios on the real packages built from /repo with -tags verif, recording NDJSON traces; coresim = the real core against simulated Mesos/Consul"}],
        "checks": checks,
        "not_applicable": [{"property_id": p["id"], "reason": NOT_YET} for p in props if p["id"] not in CHECKS],
        "notes": "see DESIGN.md; known_findings.json lists genuine defects (open / fixed)",
    }
    with open(os.path.join(ROOT, "MANIFEST.json"), "w") as fh:
        json.dump(man, fh, indent=1)
    print("MANIFEST: %d checks, %d not yet" % (len(checks), len(man["not_applicable"])))


if __name__ == "__main__":
    main()
