"""Parser for TLC's textual rendering of TLA+ values and behaviours (stdlib only)."""
import re


class _P:
    def __init__(self, s):
        self.s = s
        self.i = 0

    def ws(self):
        while self.i < len(self.s) and self.s[self.i] in " \t\r\n":
            self.i += 1

    def peek(self, t):
        self.ws()
        return self.s.startswith(t, self.i)

    def eat(self, t):
        self.ws()
        if not self.s.startswith(t, self.i):
            raise ValueError("expected %r at %d: %r" % (t, self.i, self.s[self.i:self.i + 40]))
        self.i += len(t)

    def value(self):
        self.ws()
        s = self.s
        if self.peek("<<"):
            self.eat("<<")
            out = []
            if self.peek(">>"):
                self.eat(">>")
                return out
            while True:
                out.append(self.value())
                if self.peek(","):
                    self.eat(",")
                    continue
                self.eat(">>")
                return out
        if self.peek("{"):
            self.eat("{")
            out = []
            if self.peek("}"):
                self.eat("}")
                return {"$set": out}
            while True:
                out.append(self.value())
                if self.peek(","):
                    self.eat(",")
                    continue
                self.eat("}")
                return {"$set": out}
        if self.peek("["):
            self.eat("[")
            d = {}
            if self.peek("]"):
                self.eat("]")
                return d
            while True:
                self.ws()
                m = re.compile(r"[A-Za-z_][A-Za-z0-9_]*").match(s, self.i)
                k = m.group(0)
                self.i = m.end()
                self.eat("|->")
                d[k] = self.value()
                if self.peek(","):
                    self.eat(",")
                    continue
                self.eat("]")
                return d
        if self.peek("("):
            # function: (k :> v @@ k2 :> v2)
            self.eat("(")
            d = {}
            while True:
                k = self.value()
                self.eat(":>")
                v = self.value()
                d[k if isinstance(k, (str, int)) else repr(k)] = v
                if self.peek("@@"):
                    self.eat("@@")
                    continue
                self.eat(")")
                return d
        if self.peek('"'):
            self.i += 1
            j = self.i
            out = []
            while s[j] != '"':
                if s[j] == "\\":
                    j += 1
                out.append(s[j])
                j += 1
            self.i = j + 1
            return "".join(out)
        m = re.compile(r"-?[0-9]+").match(s, self.i)
        if m:
            self.i = m.end()
            return int(m.group(0))
        m = re.compile(r"[A-Za-z_][A-Za-z0-9_]*").match(s, self.i)
        if m:
            self.i = m.end()
            w = m.group(0)
            if w == "TRUE":
                return True
            if w == "FALSE":
                return False
            return w  # model value
        raise ValueError("cannot parse value at %d: %r" % (self.i, s[self.i:self.i + 40]))


def parse_value(text):
    p = _P(text)
    v = p.value()
    return v


def parse_state(text):
    """text: lines '/\\ var = value' (values may span lines)."""
    st = {}
    parts = re.split(r"(?m)^/\\ ", text)
    for part in parts:
        part = part.strip()
        if not part:
            continue
        m = re.match(r"([A-Za-z_][A-Za-z0-9_]*)\s*=\s*", part)
        if not m:
            continue
        st[m.group(1)] = parse_value(part[m.end():])
    return st


_ACT = re.compile(r"<([A-Za-z_][A-Za-z0-9_]*)(?:\(([^)]*)\))?(?: line [0-9]+, col [0-9]+ to line [0-9]+, col [0-9]+ of module [A-Za-z0-9_]+)?>")


def _action(label):
    m = _ACT.search(label)
    if not m:
        if "Initial predicate" in label:
            return ("Init", [])
        return (label.strip(), [])
    args = [a.strip() for a in m.group(2).split(",")] if m.group(2) else []
    return (m.group(1), args)


def parse_counterexample(out):
    """Parse 'State N: <Action ...>' blocks from TLC stdout. Returns list of (name, args, state)."""
    res = []
    blocks = re.split(r"(?m)^State ([0-9]+): ", out)
    # blocks: [pre, n1, body1, n2, body2, ...]
    for k in range(1, len(blocks), 2):
        body = blocks[k + 1]
        first, _, rest = body.partition("\n")
        # state text ends at first blank line
        rest = rest.split("\n\n")[0]
        name, args = _action(first)
        res.append((name, args, parse_state(rest)))
    return res


def parse_simfile(text):
    """Parse a file written by `tlc -simulate file=...`. Returns list of (name, args, state)."""
    res = []
    chunks = re.split(r"(?m)^\\\* ", text)
    for ch in chunks[1:]:
        first, _, rest = ch.partition("\n")
        m = re.search(r"(?m)^STATE_[0-9]+ ==\s*\n", rest)
        if not m:
            continue
        body = rest[m.end():].split("\n\n")[0]
        name, args = _action(first)
        res.append((name, args, parse_state(body)))
    return res
